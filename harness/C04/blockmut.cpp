// C04 (2): "any malleated variant with the same header is reported as mutated": the real IsBlockMutated (validation.cpp) =
// CheckMerkleRoot + the 64-byte-transaction rule + CheckWitnessMalleation (coinbase witness commitment, BIP141), with the real
// BlockMerkleRoot / BlockWitnessMerkleRoot / ComputeMerkleRoot (consensus/merkle.cpp), GetWitnessCommitmentIndex, CHash256 and
// CTransaction::HasWitness / IsCoinBase / GetSerializeSize, compared with a reference written from BIP141 and the property text.
// Hash model: collision-free label algebra (ref/verif_hash_merkle.h); txid / wtxid of each transaction are symbolic leaf labels
// chosen by the harness (CTransaction::ComputeHash / ComputeWitnessHash are the two stubs), with wtxid == txid when the
// transaction carries no witness (the definition of wtxid).
#include <verif.h>
#include <verif_hash_merkle.h>
#include <util/log.h>
namespace util::log { bool ShouldDebugLog(Category) { return false; } bool ShouldTraceLog(Category) { return false; } void Log(Entry) {} }   // debug logging off: the log text (state.ToString()) is not the subject
#include <consensus/merkle.cpp>
#include <validation.h>
#include <consensus/validation.h>
#include <primitives/block.h>
#include <primitives/transaction.h>
#include <string.h>

#ifndef NTX
#define NTX 2
#endif
#ifndef NOUT0        // outputs of vtx[0]
#define NOUT0 2
#endif
#ifndef SPKLEN       // scriptPubKey length of every output of vtx[0] (38 = minimum commitment size)
#define SPKLEN 38
#endif
#ifndef WN           // coinbase witness stack size
#define WN 1
#endif
#ifndef W0LEN        // length of the first coinbase witness item (the reserved value must be exactly 32 bytes)
#define W0LEN 32
#endif
#ifndef TXWIT        // vtx[1] carries a witness
#define TXWIT 0
#endif
#ifndef SS0          // scriptSig length of vtx[0]
#define SS0 2
#endif

static uint8_t g_tid, g_wid;
Txid CTransaction::ComputeHash() const { uint256 u; u.data()[1] = g_tid; return Txid::FromUint256(u); }
Wtxid CTransaction::ComputeWitnessHash() const { uint256 u; u.data()[1] = HasWitness() ? g_wid : g_tid; return Wtxid::FromUint256(u); }

struct Ref { uint8_t ids[16]; int n; int level; bool dup; };
static Ref ref_root(const uint8_t* in, int n)
{
    Ref r; memset(&r, 0, sizeof r);
    uint8_t cur[16]; int cnt = n, w = 1, level = 0; bool dup = false;
    for (int i = 0; i < n; i++) cur[i] = in[i];
    while (cnt > 1) {
        for (int p = 0; p + 1 < cnt; p += 2) { bool eq = true; for (int j = 0; j < w; j++) if (cur[p * w + j] != cur[(p + 1) * w + j]) eq = false; if (eq) dup = true; }
        if (cnt & 1) { for (int j = 0; j < w; j++) cur[cnt * w + j] = cur[(cnt - 1) * w + j]; cnt++; }
        cnt /= 2; w *= 2; level++;
    }
    r.n = (n == 0) ? 0 : w; r.level = level; r.dup = dup; for (int i = 0; i < 16; i++) r.ids[i] = (i < r.n) ? cur[i] : 0;
    return r;
}
static void ref_label(uint8_t out[32], const Ref& r) { memset(out, 0, 32); if (r.n == 0) return; out[0] = (uint8_t)r.level; for (int i = 0; i < r.n && i < 15; i++) out[1 + i] = r.ids[i]; }
static uint64_t cs_len(uint64_t n) { return n < 253 ? 1 : 3; }

extern "C" void h_blockmut()
{
    CBlock block;
    uint8_t tid[NTX + 1], wid[NTX + 1]; bool haswit[NTX + 1]; bool is_cb[NTX + 1]; uint64_t stripped[NTX + 1];
    uint8_t spk[NOUT0 + 1][SPKLEN + 1]; uint8_t w0[W0LEN + 1];
    constexpr int WLEVEL = NTX <= 1 ? 0 : NTX <= 2 ? 1 : 2;     // height of the witness merkle tree for NTX leaves
    block.vtx.resize(NTX);
    for (int i = 0; i < NTX; i++) {
        CMutableTransaction m;
        m.vin.resize(1);
        const uint8_t hsel = (uint8_t)nondet_range(0, 1); const uint32_t n = nondet_u32();
        uint256 u; u.data()[0] = hsel;
        m.vin[0].prevout.hash = Txid::FromUint256(u); m.vin[0].prevout.n = n;
        is_cb[i] = hsel == 0 && n == 0xffffffffu;
        uint64_t outs = 0;
        if (i == 0) {
            m.vin[0].scriptSig.resize(SS0);
            m.vout.resize(NOUT0);
            for (int o = 0; o < NOUT0; o++) {
                m.vout[o].scriptPubKey.resize(SPKLEN);
                for (int k = 0; k < SPKLEN; k++) {
                    // the six commitment-header bytes are symbolic over {right value, 0}; the 32 commitment bytes fully symbolic
                    static const uint8_t HDR[6] = {0x6a, 0x24, 0xaa, 0x21, 0xa9, 0xed};
                    uint8_t b = (k < 6) ? (nondet_bool() ? HDR[k] : 0) : nondet_u8();
                    spk[o][k] = b; m.vout[o].scriptPubKey[k] = b;
                }
                outs += 8 + cs_len(SPKLEN) + SPKLEN;
            }
            m.vin[0].scriptWitness.stack.resize(WN);
            if (WN >= 1) {
                m.vin[0].scriptWitness.stack[0].resize(W0LEN);
                for (int k = 0; k < W0LEN; k++) {
                    // reserved value drawn from the label domain of the witness root's level (hash-model requirement); ids symbolic
                    uint8_t b = (k == 0) ? (uint8_t)WLEVEL : (k <= (1 << WLEVEL)) ? (uint8_t)nondet_range(0, 3) : 0;
                    w0[k] = b; m.vin[0].scriptWitness.stack[0][k] = b;
                }
            }
            if (WN >= 2) m.vin[0].scriptWitness.stack[1].resize(1);
            stripped[i] = 4 + 1 + (36 + cs_len(SS0) + SS0 + 4) + cs_len(NOUT0) + outs + 4;
        } else {
            m.vout.resize(1);
            if (i == 1 && TXWIT) { m.vin[0].scriptWitness.stack.resize(1); m.vin[0].scriptWitness.stack[0].resize(1); }
            stripped[i] = 4 + 1 + (36 + 1 + 0 + 4) + 1 + (8 + 1) + 4;
        }
        haswit[i] = (i == 0) ? (WN > 0) : (i == 1 && TXWIT);
        tid[i] = (uint8_t)nondet_range(0, 3); wid[i] = haswit[i] ? (uint8_t)nondet_range(0, 3) : tid[i];
        g_tid = tid[i]; g_wid = wid[i];
        block.vtx[i] = CTransactionRef(new CTransaction(std::move(m)));
        VASSERT(block.vtx[i]->HasWitness() == haswit[i], "HasWitness reflects the witness stacks");
    }
    for (int k = 0; k < 32; k++) block.hashMerkleRoot.data()[k] = nondet_u8();
    const bool check_witness_root = nondet_bool();

    const bool got = IsBlockMutated(block, check_witness_root);
    const bool got2 = IsBlockMutated(block, check_witness_root);     // cached verdict flags must not change the answer

    // ---- reference (BIP141 + property text)
    const Ref tr = ref_root(tid, NTX);
    uint8_t troot[32]; ref_label(troot, tr);
    bool hdr_ok = true; for (int k = 0; k < 32; k++) if (block.hashMerkleRoot.data()[k] != troot[k]) hdr_ok = false;
    bool want;
    if (!hdr_ok || tr.dup) want = true;
    else if (NTX == 0 || !is_cb[0]) { want = false; for (int i = 0; i < NTX; i++) if (stripped[i] == 64) want = true; }
    else {
        int commitpos = -1;
        for (int o = 0; o < NOUT0; o++)
            if (SPKLEN >= 38 && spk[o][0] == 0x6a && spk[o][1] == 0x24 && spk[o][2] == 0xaa && spk[o][3] == 0x21 && spk[o][4] == 0xa9 && spk[o][5] == 0xed) commitpos = o;   // the LAST matching output
        bool anywit = false; for (int i = 0; i < NTX; i++) if (haswit[i]) anywit = true;
        if (check_witness_root && commitpos >= 0) {
            if (WN != 1 || W0LEN != 32) want = true;
            else {
                uint8_t wl[NTX + 1]; wl[0] = 0; for (int i = 1; i < NTX; i++) wl[i] = wid[i];     // coinbase wtxid is defined as 0
                const Ref wr = ref_root(wl, NTX);
                uint8_t wroot[32], exp[32]; ref_label(wroot, wr);
                if (NTX == 1) memset(wroot, 0, 32);
                verif_pair_label(exp, wroot, w0);
                want = false; for (int k = 0; k < 32; k++) if (spk[commitpos][6 + k] != exp[k]) want = true;
            }
        } else want = anywit;
    }
    verif_observe(got); verif_observe(want);
    VASSERT(got == want, "IsBlockMutated iff header root mismatch, duplicate subtree, 64-byte tx without coinbase, bad/missing witness commitment, or unexpected witness");
    VASSERT(got2 == got, "second evaluation (cached flags) gives the same verdict");
#ifndef ALWAYS
    VWITNESS(!got, "an unmutated block exists in this shape");
#endif
    VWITNESS(got && hdr_ok && !tr.dup, "mutation detected beyond the merkle-root comparison");
    VREACH("end");
}
