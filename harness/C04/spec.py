from vlib import H
PROPERTY = 'C04'
LEVEL = 'model_checking'
CLAIM = ('Real ComputeMerkleRoot / ComputeMerklePath (consensus/merkle.cpp) under a collision-free free-algebra model of SHA256d: root equals the textbook '
         'definition with the duplicate-last rule; the mutated flag is set iff some level pairs two identical nodes; folding the merkle path of any leaf gives the root; '
         'and for any two different leaf lists (lengths up to the bound, leaf identities symbolic) an equal root implies the longer list is flagged (CVE-2012-2459), '
         'equal-length different lists never share a root. Harness blockmut decides the real IsBlockMutated (CheckMerkleRoot + 64-byte rule + CheckWitnessMalleation, BlockMerkleRoot, BlockWitnessMerkleRoot, GetWitnessCommitmentIndex) against a BIP141 reference '
         'on small blocks with symbolic txid/wtxid labels, header root, commitment bytes, reserved value and coinbase-ness. NOT decided: AcceptBlock/ProcessNewBlock histories (mutated variant first, genuine block later), compact-block reconstruction.')
FN = ['ComputeMerkleRoot', 'MerkleComputation', 'ComputeMerklePath (static, consensus/merkle.cpp included)', 'uint256 comparison', 'std::vector<uint256> growth']
ST = ['SHA256D64 and CSHA256 replaced by the collision-free label model ref/verif_hash_merkle.h (premise of merkle.cpp: no SHA256d collisions)']
LINK = ['uint256.cpp', 'hash.cpp', 'primitives/transaction.cpp', 'primitives/block.cpp', 'script/script.cpp']
ATT = {(4, 3), (6, 5), (8, 5), (8, 6), (8, 7)}   # shapes for which a duplication attack is known to exist: the witness must find it
def mk(a, b):
    d = {'N1': a, 'N2': b}
    if (a, b) in ATT: d['ATTACK'] = 1
    return d
pairs_q = [mk(a, b) for a in range(1, 7) for b in range(1, a) if a <= 6 and b >= max(1, a - 3)]
pairs_t = [mk(a, b) for a in range(1, 9) for b in range(0, a + 1)]
NOLOG = ['_ZN4util3log23LogPrintFormatInternal_[A-Za-z0-9_]*', '_ZN4util6detail24CheckNumFormatSpecifiersILj[0-9]+EEEvPKc']
HARNESSES = [
    H('root_path', 'merkle.cpp', 'h_root_path', link=LINK, variants=[{'N1': 0}] + [{'N1': n, 'POS': p} for n in (1, 2, 3, 5, 6) for p in sorted(set([0, n // 2, n - 1]))], tvariants=[{'N1': 0}] + [{'N1': n, 'POS': p} for n in range(1, 9) for p in range(n)],
      unwind=34, memunwind=40, timeout=400, objbits=10, functions=FN, stubs=ST,
      bounds='leaf count 0..6 (thorough 0..8), leaf identities symbolic over a 4-value domain (all equality patterns among up to 4 distinct transactions), every leaf position (quick: first/middle/last of sizes 1,2,3,5,6)'),
    H('two_lists', 'merkle.cpp', 'h_two_lists', link=LINK, variants=pairs_q + [{'N1': 3, 'N2': 3}, {'N1': 4, 'N2': 4}], tvariants=pairs_t,
      unwind=34, memunwind=40, timeout=400, objbits=10, functions=FN[:1], stubs=ST,
      bounds='pairs of lists (N1 >= N2) with N1 <= 6, N1-N2 <= 3 (thorough: all pairs up to 8), identities symbolic over a 4-value domain'),
    H('blockmut', 'blockmut.cpp', 'h_blockmut', link=['validation.cpp'] + LINK, shadow=['nofmt'], noop=NOLOG, interpose=True, unwind=40, memunwind=48, timeout=600, objbits=11,
      variants=[{'NTX': 1}, {'NTX': 2}, {'NTX': 2, 'WN': 2, 'ALWAYS': 1}, {'NTX': 1, 'W0LEN': 31, 'ALWAYS': 1}, {'NTX': 2, 'WN': 0, 'TXWIT': 1}, {'NTX': 1, 'NOUT0': 1, 'SPKLEN': 2, 'SS0': 2, 'WN': 0}],
      tvariants=[{'NTX': 1}, {'NTX': 2}, {'NTX': 3}, {'NTX': 3, 'TXWIT': 1}, {'NTX': 2, 'WN': 2, 'ALWAYS': 1}, {'NTX': 1, 'WN': 2, 'ALWAYS': 1}, {'NTX': 1, 'W0LEN': 31, 'ALWAYS': 1}, {'NTX': 1, 'W0LEN': 33, 'ALWAYS': 1}, {'NTX': 2, 'WN': 0, 'TXWIT': 1}, {'NTX': 2, 'WN': 0},
                 {'NTX': 1, 'NOUT0': 1, 'SPKLEN': 2, 'SS0': 2, 'WN': 0}, {'NTX': 1, 'NOUT0': 1, 'SPKLEN': 2, 'SS0': 3, 'WN': 0}, {'NTX': 2, 'NOUT0': 3}],
      functions=['IsBlockMutated', 'CheckMerkleRoot', 'CheckWitnessMalleation (static, validation.cpp)', 'BlockMerkleRoot', 'BlockWitnessMerkleRoot', 'ComputeMerkleRoot (consensus/merkle.cpp)', 'GetWitnessCommitmentIndex (consensus/validation.h)',
                 'CHash256 (hash.h)', 'CTransaction::HasWitness/IsCoinBase', 'GetSerializeSize(TX_NO_WITNESS(tx))'],
      stubs=ST + ['CTransaction::ComputeHash / ComputeWitnessHash return harness-chosen symbolic leaf labels (wtxid == txid when the transaction has no witness)', 'logging: debug categories disabled, sink dropped; tinyformat -> empty strings'],
      assumptions=['coinbase reserved value drawn from the label domain of the witness root level (hash-model requirement)'],
      bounds='blocks of 1..2 (thorough 3) transactions; vtx[0] with 1..3 outputs of 38 bytes whose commitment header bytes are symbolic over {correct, 0} and commitment bytes fully symbolic; coinbase witness stack of 0/1/2 items, first item 31/32/33 bytes; '
             'vtx[1] with/without witness; txid/wtxid labels over a 4-value domain; header merkle root 32 symbolic bytes; prevouts symbolic (coinbase or not); check_witness_root symbolic; a 64/65-byte first transaction shape'),
]
