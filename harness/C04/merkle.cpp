// C04: transactions are bound to the header by the merkle root; mutated lists are detected (CVE-2012-2459).
// Real code: consensus/merkle.cpp ComputeMerkleRoot, MerkleComputation/ComputeMerklePath (static: the .cpp is included).
#include <verif.h>
#include <verif_hash_merkle.h>
#include <consensus/merkle.cpp>

#ifndef N1
#define N1 3
#endif
#ifndef POS
#define POS 0
#endif
#ifndef N2
#define N2 3
#endif
#define IDBITS 2   // leaf ids from a 4-value domain: every pattern of equalities among <= 8 leaves... (stated bound)

static uint256 leaf(uint8_t id) { uint256 u; u.data()[0] = 0; u.data()[1] = id; return u; }

// reference: level-by-level on id sequences (textbook definition with Bitcoin's duplicate-last rule); returns the padded id
// sequence of the root and whether some level had an equal adjacent (even, odd) pair of *nodes*
struct Ref { uint8_t ids[16]; int n; int level; bool dup; };
static Ref ref_root(const uint8_t* in, int n)
{
    Ref r; memset(&r, 0, sizeof r);
    // node k at current level covers ids[k*w .. (k+1)*w)
    uint8_t cur[16]; int cnt = n, w = 1, level = 0; bool dup = false;
    for (int i = 0; i < n; i++) cur[i] = in[i];
    while (cnt > 1) {
        for (int p = 0; p + 1 < cnt; p += 2) { bool eq = true; for (int j = 0; j < w; j++) if (cur[p * w + j] != cur[(p + 1) * w + j]) eq = false; if (eq) dup = true; }
        if (cnt & 1) { for (int j = 0; j < w; j++) cur[cnt * w + j] = cur[(cnt - 1) * w + j]; cnt++; }
        cnt /= 2; w *= 2; level++;
    }
    r.n = (n == 0) ? 0 : w; r.level = level; r.dup = dup; for (int i = 0; i < 16; i++) r.ids[i] = (i < r.n) ? cur[i] : 0;
    return r;
}

// (a)+(c): root equals the definition; the merkle path of any leaf folds back to the root
extern "C" void h_root_path()
{
    uint8_t ids[N1 + 1]; std::vector<uint256> leaves; leaves.reserve(N1 + 1);
    for (int i = 0; i < N1; i++) { ids[i] = (uint8_t)nondet_range(0, (1 << IDBITS) - 1); leaves.push_back(leaf(ids[i])); }
    bool mutated = false;
    std::vector<uint256> copy; copy.reserve(N1 + 1); for (int i = 0; i < N1; i++) copy.push_back(leaves[i]);
    const uint256 root = ComputeMerkleRoot(std::move(copy), &mutated);
    const Ref r = ref_root(ids, N1);
#if N1 == 0
    VASSERT(root.IsNull(), "empty list has the null root");
#else
    VASSERT(root.data()[0] == r.level, "root is at the definition's tree height");
    bool same = true; for (int i = 0; i < r.n && i < 15; i++) if (root.data()[1 + i] != r.ids[i]) same = false;
    VASSERT(same, "merkle root equals the textbook definition (duplicate-last rule) over the leaf sequence");
    VASSERT(mutated == r.dup, "mutated flag set iff some level hashes two identical adjacent nodes");
    const uint32_t pos = POS;   // concrete per variant: a symbolic position makes the path vector's size (hence its allocations) symbolic
    const std::vector<uint256> path = ComputeMerklePath(leaves, pos);
    VASSERT((int)path.size() == r.level, "merkle path has one sibling per level");
    uint256 h = leaves[pos]; uint32_t p = pos;
    for (int l = 0; l < r.level; l++) {
        uint256 o; if (p & 1) verif_pair_label(o.data(), path[l].data(), h.data()); else verif_pair_label(o.data(), h.data(), path[l].data());
        h = o; p >>= 1;
    }
    VASSERT(h == root, "folding the merkle path of any position reproduces the root");
#if N1 > 1
    VWITNESS(mutated, "a flagged list exists");
#endif
    VWITNESS(!mutated, "an unflagged list exists");
#endif
    for (int i = 0; i < 32; i++) verif_observe(root.data()[i]);
    VREACH("end");
}

// (b) CVE-2012-2459: two different transaction lists with the same root: the longer one (or both) is flagged as mutated
extern "C" void h_two_lists()
{
    uint8_t a[N1 + 1], b[N2 + 1]; std::vector<uint256> la, lb; la.reserve(N1 + 1); lb.reserve(N2 + 1);
    for (int i = 0; i < N1; i++) { a[i] = (uint8_t)nondet_range(0, (1 << IDBITS) - 1); la.push_back(leaf(a[i])); }
    for (int i = 0; i < N2; i++) { b[i] = (uint8_t)nondet_range(0, (1 << IDBITS) - 1); lb.push_back(leaf(b[i])); }
    bool ma = false, mb = false;
    const uint256 ra = ComputeMerkleRoot(std::move(la), &ma);
    const uint256 rb = ComputeMerkleRoot(std::move(lb), &mb);
    bool differ = N1 != N2; for (int i = 0; i < N1 && i < N2; i++) if (a[i] != b[i]) differ = true;
    verif_observe(ma); verif_observe(mb); verif_observe(ra == rb);
    if (differ && ra == rb) {
        VASSERT(N1 != N2, "equal-length different lists never share a root (collision-free hash)");
#if N1 > N2
        VASSERT(ma, "a longer list sharing the root of a shorter one is flagged as mutated");
#endif
    }
#ifdef ATTACK
    VWITNESS(differ && ra == rb, "a duplication attack of this shape exists");
#endif
    VREACH("end");
}
