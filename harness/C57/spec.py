from vlib import H
PROPERTY = 'C57'
LEVEL = 'model_checking'
CLAIM = ('The script_check_reason / fScriptChecks decision of the real Chainstate::ConnectBlock (validation.cpp), observed end-to-end: the whole ConnectBlock runs under stubs on a block with a coinbase and one ordinary '
         'transaction, and the recorder replacing CheckInputScripts is NOT called iff assumevalid is configured (non-null), its hash is in the block index, the connected block is an ancestor-or-equal of it '
         '(real CBlockIndex::GetAncestor over real skip pointers), the block is an ancestor-or-equal of the best header, best-header chain work >= minimum chain work (independent limb-wise comparison) and '
         'GetBlockProofEquivalentTime(best header, block, best header) > 1 209 600 s; the equivalent-time function is called with exactly those arguments; a failing script check rejects the block, a skipped one does not. '
         'Decided for every enumerated placement of (connected block, assumed-valid block, best header) in a fixed 7-block tree with a competing branch (main g0-a1-a2-a3-a4, fork a1-f2-f3; assumevalid also disabled/unknown), '
         'with best-header work, minimum chain work (256-bit), the equivalent-time value (64-bit), fJustCheck, chainstate role and the script verdict symbolic. NOT decided: the arithmetic of GetBlockProofEquivalentTime '
         '(256-bit division; stubbed to an arbitrary value), chains deeper than the tree, the parallel check-queue path (no worker threads), everything else ConnectBlock does (stubbed).')
NOLOG = ['_ZN4util3log23LogPrintFormatInternal_[A-Za-z0-9_]*', '_ZN4util6detail24CheckNumFormatSpecifiersILj[0-9]+EEEvPKc']
NAMES = {0: 'g0', 1: 'a1', 2: 'a2', 3: 'a3', 4: 'a4', 5: 'f2', 6: 'f3', -1: 'off', -2: 'unk'}
def e(p, av, best): return ('p%s_av%s_b%s' % (NAMES[p], NAMES[av], NAMES[best]), '%d, %d, %d' % (p, av, best))
ENT = [e(2, 3, 4), e(3, 2, 4), e(5, 3, 4), e(5, 3, 6), e(2, 3, 6), e(2, -1, 4), e(2, -2, 4)]
TENT = ENT + [e(2, 2, 4), e(2, 6, 4), e(4, 4, 4), e(1, 6, 4)]
HARNESSES = [
    H('scriptchecks', 'scriptchecks.cpp', 'h_scriptchecks', link=['validation.cpp', 'coins.cpp', 'chain.cpp', 'arith_uint256.cpp', 'uint256.cpp', 'primitives/transaction.cpp', 'primitives/block.cpp', 'script/script.cpp', 'hash.cpp', 'pow.cpp'],
      entries=ENT, tentries=TENT, shadow=['nofmt', 'nopool'], noop=NOLOG, interpose=True, unwind=16, unwindset='_ZNK9base_blobILj256EE6GetHexB5cxx11Ev.0:34', memunwind=200, timeout=600, objbits=11,
      functions=['Chainstate::ConnectBlock (whole function)', 'CBlockIndex::GetAncestor/BuildSkip (chain.cpp)', 'std::unordered_map<uint256, CBlockIndex, BlockHasher>::find/try_emplace (BlockMap)', 'base_uint<256>::CompareTo',
                 'GetBlockScriptFlags', 'IsBIP30Repeat', 'GetBlockSubsidy', 'Chainstate::GetRole', 'ChainstateManager::AssumedValidBlock/MinimumChainWork/GetParams/GetCheckQueue', 'CCoinsViewCache::HaveCoin/AccessCoin/GetBestBlock/SetBestBlock (real cache over an empty base view)', 'CBlockIndex::RaiseValidity'],
      stubs=['CheckInputScripts -> recorder with symbolic verdict (the observation point)', 'GetBlockProofEquivalentTime -> recorder of its arguments, returns an arbitrary int64', 'CheckBlock -> true', 'Consensus::CheckTxInputs -> true, fee 0', 'SequenceLocks -> true', 'GetTransactionSigOpCost -> 0',
             'UpdateCoins -> counter', 'node::BlockManager::WriteBlockUndo -> counter, true', 'CBlockHeader::GetHash -> the connected index entry\'s hash', 'CTransaction::ComputeHash/ComputeWitnessHash -> fixed distinct constants', 'CScriptCheck::operator(), FatalError -> assert unreachable',
             'HexStr/ScriptErrorString -> empty; std::chrono::steady_clock::now -> epoch; std::condition_variable::notify/wait -> no-op/unreachable', 'base coins view: empty',
             'phantom ChainstateManager: m_options.chainparams (reference slot), m_options.assumed_valid_block, m_options.minimum_chain_work, m_best_header, m_blockman.m_block_index (real BlockMap holding the assumed-valid entry + a decoy), m_blockman.m_dirty_blockindex, m_script_check_queue (zeroed: no worker threads), counters/timers zero',
             'phantom Chainstate: m_assumeutxo, m_target_blockhash, m_last_script_check_reason_logged, m_blockman/m_chainman reference slots', 'phantom CChainParams: consensus buried heights INT_MAX, nSubsidyHalvingInterval 210000, script_flag_exceptions empty map',
             'linked TUs compiled interposable (H(interpose=True))', 'cs_main/G_TRANSLATION_FUN defined in the harness; pthread_mutex_* -> success; logging emptied (noop LogPrintFormatInternal_/CheckNumFormatSpecifiers, ShouldDebugLog nondeterministic); tinyformat -> empty strings; PoolAllocator -> operator new (ref/nopool); CSHA256 unconstrained model (unused)',
             'assertion_fail -> CBMC assertion; abort() -> assertion'],
      assumptions=['tree shapes and heights concrete per entry (7 blocks, heights 0..4)', 'stub script failure carries empty reason strings'],
      bounds='quick: ' + ', '.join(x[0] for x in ENT) + '; thorough adds ' + ', '.join(x[0] for x in TENT[len(ENT):]) + ' (p = connected block, av = assumed-valid block or off/unknown, b = best header)'),
]
