from vlib import H
PROPERTY = 'C33'
LEVEL = 'model_checking'
CLAIM = ('Real headerssync.cpp (HeadersSyncState constructor, ProcessNextHeaders, ValidateAndStoreHeadersCommitments, ValidateAndProcessSingleHeader, ValidateAndStoreRedownloadedHeader, '
         'PopHeadersReadyForAcceptance, Finalize) with the real HeadersSyncParams shrunk to commitment_period 2 / redownload_buffer_size 2, real arith_uint256 work arithmetic, real bitdeque and std::deque<CompressedHeader>, '
         'driven with symbolic headers (nonce, nBits class, hashPrevBlock), symbolic chain start (height parity, work, nBits), symbolic minimum work, symbolic salt / commitment offset / clock slack and symbolic full-message flag. '
         'After every ProcessNextHeaders call the result and state are compared with a replay of the rules written from the property text: PRESYNC never returns a header; a PRESYNC batch is accepted iff it connects, every difficulty '
         'transition is permitted and the commitment bound holds; REDOWNLOAD is entered exactly when the accumulated presync work reaches the minimum; the number of stored commitments equals the number of commitment heights and stays '
         'within the constructor bound; a REDOWNLOAD batch is accepted iff it connects to the start / previous redownloaded header, transitions are permitted and every checked commitment equals the bit taken in PRESYNC (in order); '
         'released headers are exactly the oldest redownloaded headers, form a continuous chain from the start, have permitted transitions, and are released only when the redownloaded chain has the minimum work or more than '
         'redownload_buffer_size verified headers follow; rejection finalises the sync and releases nothing. '
         'Decided shapes: quick tier = one PRESYNC call of 1 or 2 headers (PRESYNC rules only); thorough tier adds 3 headers and PRESYNC(1 header) followed by a second call of 1 header (REDOWNLOAD whenever the first reached the '
         'minimum work; solver 160 s alone, 2-4x that on the shared machine, hence not in the quick tier). '
         'NOT decided: any shape with >= 2 redownloaded headers (so the "full buffer follows every released header" rule is only exercised in its degenerate form: nothing released before the work is reached); net_processing callers.')
import os
# libstdc++ deque/sort internals that are reachable only on paths that need > 64 commitments / > 10 buffered headers / a full node map: one iteration allowed,
# --unwinding-assertions turns a feasible second iteration into an inconclusive run
RARE = ','.join('%s:2' % l.strip() for l in open(os.path.join(os.path.dirname(os.path.abspath(__file__)), 'rare_loops.txt')) if l.strip())
def e(k1, k2=0, k3=0): return ('calls_%d_%d_%d' % (k1, k2, k3), '%d, %d, %d' % (k1, k2, k3))
quick = [e(1), e(2)]
thorough = quick + [e(1, 1), e(3)]   # e(1, 2), e(2, 1): no verdict in 400 s; e(2, 3): symex alone 465k steps
HARNESSES = [
    H('hsync', 'hsync.cpp', 'h_hsync', link=['headerssync.cpp', 'chain.cpp', 'arith_uint256.cpp', 'uint256.cpp', 'primitives/block.cpp'], entries=quick, tentries=thorough, shadow=['nofmt', 'smallbitdeque'],
      defines={'VERIF_LL2C_INLINE_GEP': 1, 'VERIF_TALLOC_MAX': 8}, noop=['_ZN4util3log23LogPrintFormatInternal_[A-Za-z0-9_]*'], unwind=6, unwindset=RARE + ',_ZN16HeadersSyncState30ValidateAndProcessSingleHeaderERK12CBlockHeader.0:10,_ZN16HeadersSyncState34ValidateAndStoreRedownloadedHeaderERK12CBlockHeader.0:10,_ZNK9base_uintILj256EE9CompareToERKS0_.0:10,_ZN8ChaCha209KeystreamESt4spanISt4byteLm18446744073709551615EE.0:70', memunwind=600, timeout=900, objbits=11, diff_runs=12, backends=['default', 'cadical'],
      functions=['HeadersSyncState::HeadersSyncState', 'ProcessNextHeaders', 'ValidateAndStoreHeadersCommitments', 'ValidateAndProcessSingleHeader', 'ValidateAndStoreRedownloadedHeader', 'PopHeadersReadyForAcceptance', 'Finalize',
                 'bitdeque (util/bitdeque.h)', 'std::deque<CompressedHeader>', 'arith_uint256 +=, CompareTo', 'CBlockIndex::GetBlockHeader/GetMedianTimePast/GetBlockHash', 'FastRandomContext::randrange'],
      stubs=['CBlockHeader::GetHash = injective function of (nNonce, nBits) in the low 32 bits (no SHA-256)', 'PresaltedSipHasher::operator()(uint256) = salt-selected bit of the header hash xor a salt bit (deterministic per salt)',
             'GetBitsProof(nBits) = 1 + (nBits & 3) (real one: C54)', 'PermittedDifficultyTransition = new class <= old class + 1 (real one: C07)', 'NodeClock::now = harness value', 'logging off, log templates emptied',
             'FastRandomContext keystream nondeterministic', 'shadow header smallbitdeque: default blob of bitdeque<> 64 bits instead of 32768 (real template code)', 'typed allocations with non-constant count: 8 elements, count asserted <= 8'],
      assumptions=['nBits in 4 classes, nonces 4 bits, hashPrevBlock 8 bits', 'chain start height 0/1, work 0..3, minimum work 0..15'],
      bounds='quick: calls of (1), (2) headers; thorough adds (1 then 1) and (3). Shapes (1,2), (2,1): no verdict in 400 s; (2,3): symbolic execution alone produces 465k steps'),
]
