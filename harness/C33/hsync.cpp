// C33: headers from an unproven peer are released for storage only after their work is proven.
// Real code: headerssync.cpp (HeadersSyncState ctor, ProcessNextHeaders, ValidateAndStoreHeadersCommitments, ValidateAndProcessSingleHeader,
// ValidateAndStoreRedownloadedHeader, PopHeadersReadyForAcceptance, Finalize), util/bitdeque.h, std::deque<CompressedHeader>, arith_uint256 comparison/addition,
// CBlockIndex::GetBlockHeader/GetMedianTimePast/GetBlockHash.
// Models (stubs): header hash = injective function of (nNonce, nBits) placed in the low 32 bits (never SHA-256 symbolically); salted commitment hash = a salt-selected bit of
// the header hash xor a salt bit; per-header work GetBitsProof(nBits) = 1 + (nBits & 3) (the real one is C54's subject); PermittedDifficultyTransition = recorded functional
// rule "new nBits <= old nBits + 1" (the real one is C07's subject); NodeClock::now() = harness-chosen value; logging off.
#include <verif.h>
#include <verif_stubs_common.h>
#define private public
#define protected public
#include <headerssync.h>
#undef private
#undef protected
#include <chain.h>
#include <pow.h>
#include <util/time.h>
#include <util/log.h>
#include <util/hasher.h>
#include <crypto/siphash.h>

namespace util::log { bool ShouldDebugLog(Category) { return false; } bool ShouldTraceLog(Category) { return false; } void Log(Entry) {} }
std::string StrFormatInternalBug(std::string_view, const std::source_location&) { return std::string(); }
std::string HexStr(const std::span<const uint8_t>) { return std::string(); }

// ---- models
static uint32_t lo32(const uint256& h) { return (uint32_t)h.data()[0] | ((uint32_t)h.data()[1] << 8) | ((uint32_t)h.data()[2] << 16) | ((uint32_t)h.data()[3] << 24); }
static uint256 mk256(uint32_t v) { uint256 r; r.data()[0] = (unsigned char)v; r.data()[1] = (unsigned char)(v >> 8); r.data()[2] = (unsigned char)(v >> 16); r.data()[3] = (unsigned char)(v >> 24); return r; }
static uint32_t hash_model(uint32_t nonce, uint32_t bits) { return (nonce << 2) | (bits & 3); }
uint256 CBlockHeader::GetHash() const { return mk256(hash_model(nNonce, nBits)); }
static uint64_t g_salt0, g_salt1;
SaltedUint256Hasher::SaltedUint256Hasher() : m_hasher{g_salt0, g_salt1} {}
static bool commit_bit_model(uint32_t h) { return (((h >> (2 + (g_salt0 & 3))) ^ (uint32_t)g_salt1) & 1) != 0; }
uint64_t PresaltedSipHasher::operator()(const uint256& val) const noexcept { return commit_bit_model(lo32(val)) ? 1 : 0; }
static uint32_t work_model(uint32_t bits) { return 1 + (bits & 3); }
arith_uint256 GetBitsProof(uint32_t bits) { return arith_uint256(work_model(bits)); }
static bool permitted_model(uint32_t old_bits, uint32_t new_bits) { return (new_bits & 3) <= (old_bits & 3) + 1; }
static int g_permit_calls;
bool PermittedDifficultyTransition(const Consensus::Params&, int64_t, uint32_t old_nbits, uint32_t new_nbits) { g_permit_calls++; return permitted_model(old_nbits, new_nbits); }
static int64_t g_now;
NodeClock::time_point NodeClock::now() noexcept { return time_point{std::chrono::seconds{g_now}}; }

#define MAXH 5
struct Hdr { uint32_t nonce, bits, prev; };

static CBlockHeader mk_header(const Hdr& h)
{
    CBlockHeader b; b.nVersion = 0; b.hashPrevBlock = mk256(h.prev); b.hashMerkleRoot.SetNull(); b.nTime = 0; b.nBits = h.bits; b.nNonce = h.nonce;
    return b;
}

// K1, K2, K3: number of headers in call 1, 2, 3 (0 = call not made)
template <int K1, int K2, int K3>
static void run()
{
    const int KS[3] = {K1, K2, K3};
    g_salt0 = nondet_u8() & 3; g_salt1 = nondet_u8() & 1; g_permit_calls = 0;
    // chain start
    CBlockIndex start;
    start.nHeight = (int)(nondet_u8() & 1);
    start.nBits = nondet_u8() & 3;
    start.nNonce = nondet_u8() & 15;
    const uint32_t start_hash = hash_model(start.nNonce, start.nBits);   // the index entry's hash is the hash of its header
    uint256 start_hash256 = mk256(start_hash);
    start.phashBlock = &start_hash256;
    start.nTime = 1000;
    const uint32_t start_work = nondet_u8() & 3;
    start.nChainWork = arith_uint256(start_work);
    const uint32_t min_work = nondet_u8() & 15;
    // clock: (now - MTP(start) + MAX_FUTURE_BLOCK_TIME) seconds, 6 blocks per second, one commitment every 2 blocks
    const int64_t slack = (int64_t)(nondet_u8() & 1);          // 0 or 1 second beyond the minimum
    g_now = 1000 - MAX_FUTURE_BLOCK_TIME + slack;
    const uint64_t want_max_commitments = 6 * (uint64_t)slack / 2;
    Consensus::Params cparams;
    const HeadersSyncParams hparams{.commitment_period = 2, .redownload_buffer_size = 2};
    HeadersSyncState hss(/*id=*/0, cparams, hparams, start, arith_uint256(min_work));
    VASSERT(hss.m_max_commitments == want_max_commitments, "commitment bound = 6 blocks/s * seconds since the start's median time (+2h) / period");
    VASSERT(hss.m_commit_offset < 2, "commitment offset below the period");
    const unsigned off = (unsigned)hss.m_commit_offset;
    VASSERT(hss.GetState() == HeadersSyncState::State::PRESYNC, "sync starts in PRESYNC");

    // oracle bookkeeping
    uint32_t pre_work = start_work; int pre_height = start.nHeight; uint32_t pre_last_hash = start_hash, pre_last_bits = start.nBits;
    bool pre_bit[MAXH]; int pre_nbits = 0;                       // commitment bits taken in presync, in order
    uint32_t re_work = start_work; int re_count = 0, rel_count = 0; bool re_all = false;
    int re_height = start.nHeight; uint32_t re_last_hash = start_hash, re_last_bits = start.nBits; Hdr buf[MAXH]; int buf_head = 0, buf_tail = 0;
    uint32_t rel_last_hash = start_hash, rel_last_bits = start.nBits; int rel_height = start.nHeight;
    int re_checked = 0;
    bool any_released = false, reached_redownload = false;

    for (int call = 0; call < 3; call++) {
        if (KS[call] == 0) continue;
        if (hss.GetState() == HeadersSyncState::State::FINAL) continue;
        const int k = KS[call];
        Hdr hs[3]; CBlockHeader blk[3];
        for (int i = 0; i < k; i++) { hs[i].nonce = nondet_u8() & 15; hs[i].bits = nondet_u8() & 3; hs[i].prev = nondet_u32() & 0xff; blk[i] = mk_header(hs[i]); }
        const bool full = nondet_bool() != 0;
        const HeadersSyncState::State before = hss.GetState();
        const auto res = hss.ProcessNextHeaders(std::span<const CBlockHeader>(blk, (size_t)k), full);
        const HeadersSyncState::State after = hss.GetState();
        verif_observe(res.success); verif_observe(res.request_more); verif_observe(res.pow_validated_headers.size()); verif_observe((uint64_t)after);
        const int nrel = (int)res.pow_validated_headers.size();

        if (before == HeadersSyncState::State::PRESYNC) {
            VASSERT(nrel == 0, "no header is released for storage during PRESYNC");
            // oracle: the batch is accepted iff it connects to the last presync header, every difficulty transition is permitted and the commitment bound holds
            bool ok = hs[0].prev == pre_last_hash; uint32_t w = pre_work; int h = pre_height; uint32_t lb = pre_last_bits; int nb = pre_nbits; uint32_t lh = pre_last_hash;
            bool bits_new[3]; int nnew = 0;
            for (int i = 0; i < k; i++) if (ok) {
                if (!permitted_model(lb, hs[i].bits)) { ok = false; }
                else {
                    if ((unsigned)((h + 1) % 2) == off) { bits_new[nnew++] = commit_bit_model(hash_model(hs[i].nonce, hs[i].bits)); if ((uint64_t)(nb + nnew) > want_max_commitments) ok = false; }
                    if (ok) { w += work_model(hs[i].bits); h++; lb = hs[i].bits; lh = hash_model(hs[i].nonce, hs[i].bits); }
                }
            }
            VASSERT(res.success == ok, "PRESYNC batch accepted iff it connects, all difficulty transitions are permitted and the commitment bound is respected");
            if (ok) {
                for (int j = 0; j < nnew; j++) if (pre_nbits < MAXH) pre_bit[pre_nbits++] = bits_new[j];
                pre_work = w; pre_height = h; pre_last_bits = lb; pre_last_hash = lh;
                VASSERT((after == HeadersSyncState::State::REDOWNLOAD) == (pre_work >= min_work), "switch to REDOWNLOAD exactly when the presync chain work reaches the minimum");
                VASSERT(after == HeadersSyncState::State::REDOWNLOAD || after == (full ? HeadersSyncState::State::PRESYNC : HeadersSyncState::State::FINAL), "below the minimum: continue only after a full message");
                VASSERT(hss.GetPresyncHeight() == pre_height || after == HeadersSyncState::State::FINAL, "presync height counts the accepted headers");
                if (after != HeadersSyncState::State::FINAL) {
                    VASSERT(hss.m_header_commitments.size() == (size_t)pre_nbits, "one commitment per commitment height");
                    VASSERT(hss.m_header_commitments.size() <= hss.m_max_commitments, "memory: stored commitments within the bound computed by the constructor");
                }
                if (after == HeadersSyncState::State::REDOWNLOAD) reached_redownload = true;
            } else {
                VASSERT(after == HeadersSyncState::State::FINAL, "a rejected batch ends the sync");
            }
        } else {
            // REDOWNLOAD
            VASSERT(before == HeadersSyncState::State::REDOWNLOAD, "only PRESYNC and REDOWNLOAD process headers");
            VASSERT(pre_work >= min_work, "REDOWNLOAD is entered only after the presync chain reached the minimum work");
            // oracle replay of the redownload rules (written from the property text): connect to the previous redownloaded header (or the start), permitted transition,
            // accumulate work; until the redownloaded chain itself has the minimum work, every commitment height must reproduce the bit taken in PRESYNC, in order
            bool ok = true;
            for (int i = 0; i < k; i++) if (ok) {
                const uint32_t hsh = hash_model(hs[i].nonce, hs[i].bits);
                if (hs[i].prev != re_last_hash || !permitted_model(re_last_bits, hs[i].bits)) { ok = false; }
                else {
                    re_work += work_model(hs[i].bits);
                    if (re_work >= min_work) re_all = true;
                    if (!re_all && (unsigned)((re_height + 1) % 2) == off) {
                        if (re_checked >= pre_nbits) ok = false;
                        else { bool expect = false; for (int q = 0; q < MAXH; q++) if (q == re_checked) expect = pre_bit[q]; re_checked++; if (commit_bit_model(hsh) != expect) ok = false; }
                    }
                    if (ok) { re_height++; re_last_hash = hsh; re_last_bits = hs[i].bits; for (int q = 0; q < MAXH; q++) if (q == buf_tail) buf[q] = hs[i]; buf_tail++; }
                }
            }
            VASSERT(res.success == ok, "REDOWNLOAD batch accepted iff it connects, transitions are permitted and every checked commitment matches the one taken in PRESYNC");
            if (!ok) VASSERT(nrel == 0 && after == HeadersSyncState::State::FINAL, "a rejected redownload batch releases nothing and ends the sync");
            if (ok) {
                const int buffered = buf_tail - buf_head;
                const int want_rel = re_all ? buffered : (buffered > 2 ? buffered - 2 : 0);
                VASSERT(nrel == want_rel, "released = everything once the redownloaded chain has the minimum work, otherwise all but redownload_buffer_size verified headers");
            }
            // released headers: exactly the oldest buffered headers, as one continuous chain from the sync start, with permitted transitions
            for (int j = 0; j < 3; j++) if (j < nrel) {
                const CBlockHeader& r = res.pow_validated_headers[j];
                Hdr want{0, 0, 0}; for (int q = 0; q < MAXH; q++) if (q == buf_head) want = buf[q];
                VASSERT(r.nNonce == want.nonce && r.nBits == want.bits, "released headers are the redownloaded headers, oldest first");
                VASSERT(lo32(r.hashPrevBlock) == rel_last_hash, "released headers form one continuous chain from the sync start");
                VASSERT(permitted_model(rel_last_bits, r.nBits), "every released header has a permitted difficulty transition from its predecessor");
                rel_last_hash = hash_model(r.nNonce, r.nBits); rel_last_bits = r.nBits; rel_height++; buf_head++;
                rel_count++; any_released = true;
            }
            if (res.success) re_count += k;
            if (nrel > 0) VASSERT(res.success, "headers are released only by a successful call");
            if (after != HeadersSyncState::State::FINAL) {
                VASSERT(hss.m_redownloaded_headers.size() <= hparams.redownload_buffer_size || hss.m_process_all_remaining_headers, "memory: the redownload buffer holds at most redownload_buffer_size headers between calls");
                VASSERT(hss.m_header_commitments.size() <= hss.m_max_commitments, "memory: stored commitments within the bound computed by the constructor");
            }
            // buffer rule: a header is released only when more than a full buffer of verified headers follows it, unless the redownloaded chain itself reached the minimum work
            if (nrel > 0 && !(hss.m_redownload_chain_work >= arith_uint256(min_work))) VASSERT(rel_count + (int)hparams.redownload_buffer_size <= re_count, "released headers are followed by a full buffer of redownloaded headers");
        }
    }
    if (any_released) VASSERT(reached_redownload && pre_work >= min_work, "headers were released only after the presync chain reached the minimum work");
    VWITNESS(reached_redownload, "REDOWNLOAD reached");
    if (K2 >= 1) VWITNESS(any_released, "some header released");
    VWITNESS(hss.GetState() == HeadersSyncState::State::FINAL, "sync finalised");
    VREACH("end");
}
#define VERIF_ENTRY(name, ...) extern "C" void h_##name() { run<__VA_ARGS__>(); }
#include VERIF_ENTRIES_INC
