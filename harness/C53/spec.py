from vlib import H
PROPERTY = 'C53'
LEVEL = 'model_checking'
CLAIM = ('The real AbstractThresholdConditionChecker::GetStateFor / GetStateSinceHeightFor / GetStateStatisticsFor (versionbits.cpp) with the real VersionBitsConditionChecker::Condition/Mask, '
         'CBlockIndex::GetMedianTimePast (std::sort), GetAncestor/BuildSkip and the real std::map cache, run on real CBlockIndex chains of 2..5 periods (period 1..3, thorough 4), agree with a forward '
         'BIP9 automaton written from the BIP/property text: (a) GetStateFor(block, fresh cache) == automaton state for EVERY block of the chain incl. the null parent (hence equal for all blocks of a period); '
         '(b) cache independence: for ordered pairs (warming query, query) the result on the warmed cache == automaton == fresh result; (c) GetStateSinceHeightFor == first height of the current run of equal '
         'states (0 for DEFINED/ALWAYS_ACTIVE/NEVER_ACTIVE); (d) GetStateStatisticsFor period/threshold/elapsed/count/possible and the per-block signalling vector; (e) cache keys are only nullptr or period-end blocks. '
         'Symbolic (full width): every block\'s nVersion, deployment bit 0..28, threshold, timeout (int64), min_activation_height (int32). Concrete per entry: period, chain length, the timestamp sequence '
         '(3 representative patterns: regular, non-monotone, slowest clock allowed by nTime > MTP(prev)) and the start time, which takes every position relative to the period-end median times '
         '(start == MTP of period k for every k, one past the last, ALWAYS_ACTIVE, NEVER_ACTIVE). LOCKED_IN precedence over timeout, ACTIVE/FAILED absorbing, min_activation_height delay are all part of the automaton.')
def e(per, nblk, tpat, sidx, mode):
    name = 'p%d_n%d_t%d_s%s_m%d' % (per, nblk, tpat, str(sidx).replace('-', 'm'), mode)
    return (name, '%d, %d, %d, %d, %d' % (per, nblk, tpat, sidx, mode))
quick = [e(2, 8, 0, s, 0) for s in (-2, -1, 0, 1, 2, 3, 4)] + [e(2, 8, 1, 0, 0), e(2, 8, 1, 2, 0), e(2, 8, 2, 1, 0), e(2, 8, 2, 3, 0), e(3, 9, 1, 1, 0), e(3, 7, 0, 0, 0), e(1, 4, 0, 1, 0), e(1, 5, 2, 0, 0)]
quick += [e(2, 6, 0, s, 1) for s in (0, 1, 3)] + [e(2, 6, 0, -1, 1), e(2, 8, 1, 2, 2), e(3, 6, 2, 0, 1)]
thorough = list(quick) + [e(3, 15, t, s, 0) for t in (0, 1, 2) for s in (0, 1, 2, 3, 4, 5)] + [e(2, 10, 1, s, 0) for s in (0, 1, 2, 3, 4, 5)] + [e(4, 12, 1, s, 0) for s in (0, 1, 2, 3)] \
    + [e(2, 8, t, s, 2) for t in (0, 2) for s in (0, 1, 2, 3, 4)] + [e(3, 9, 1, s, 1) for s in (0, 1, 2)] + [e(2, 8, 1, s, 1) for s in (0, 1)]
GSF = '_ZNK33AbstractThresholdConditionChecker11GetStateForEPK11CBlockIndexRSt3mapIS2_14ThresholdStateSt4lessIS2_ESaISt4pairIKS2_S4_EEE'
HARNESSES = [
    H('vbits', 'vbits.cpp', 'h_vbits', link=['versionbits.cpp', 'chain.cpp', 'arith_uint256.cpp', 'uint256.cpp'], entries=quick, tentries=thorough, shadow=['nofmt'],
      unwind=400, timeout=600, objbits=11, diff_runs=12, noop=[r'_ZNSt8_Rb_treeIPK11CBlockIndex.*8_M_eraseEPSt13_Rb_tree_nodeIS6_E'],
      functions=['AbstractThresholdConditionChecker::GetStateFor', 'AbstractThresholdConditionChecker::GetStateSinceHeightFor', 'AbstractThresholdConditionChecker::GetStateStatisticsFor',
                 'VersionBitsConditionChecker::Condition / Mask / BeginTime / EndTime / MinActivationHeight / Period / Threshold (virtual dispatch)', 'CBlockIndex::GetMedianTimePast (chain.h, std::sort)',
                 'CBlockIndex::GetAncestor / BuildSkip (chain.cpp)', 'std::map<const CBlockIndex*, ThresholdState> (libstdc++ headers; out-of-line tree helpers = unbalanced-BST model)', 'std::vector<bool>'],
      stubs=['assertion_fail -> CBMC assertion', 'std::map destructor walk (_Rb_tree::_M_erase) emptied (deallocation is a no-op in the runtime model)', 'tinyformat -> empty strings (unused)'],
      assumptions=['threshold <= INT_MAX (Threshold() returns int)', 'GetStateStatisticsFor.possible is checked only for threshold <= period (for threshold > period the unsigned subtraction in the code wraps; no deployment has that)',
                   'timestamps obey the consensus rule nTime > MTP(prev) (asserted for the concrete patterns), so MTP is non-decreasing: without it the code\'s documented "MTP < start => DEFINED" shortcut differs from the forward automaton'],
      bounds='quick: period 2 x 4 periods (8 blocks), period 3 x 3 (9 blocks) and 7 blocks (incomplete last period), period 1 x 4/5; cache-independence pairs: all 49 ordered pairs on 6-block chains, 45 pairs (warm at nullptr/period ends x every query) on 8 blocks. '
             'thorough: period 3 x 5 periods, period 2 x 5, period 4 x 3. Timestamps and start time are concrete representatives per order pattern (NOT symbolic: a symbolic outcome of the "MTP < start" early exit changes the number of map nodes / vector elements and '
             'CBMC then walks merged heaps of different shape: measured 8.1 M variables / 5 GB for a one-block chain); everything else symbolic full width'),
]
