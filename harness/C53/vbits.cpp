// C53: BIP9 deployment state machine. Real code: versionbits.cpp AbstractThresholdConditionChecker::GetStateFor /
// GetStateSinceHeightFor / GetStateStatisticsFor, versionbits_impl.h VersionBitsConditionChecker (Condition, Mask),
// chain.h CBlockIndex::GetMedianTimePast (std::sort), chain.cpp GetAncestor / BuildSkip, std::map cache (libstdc++ headers
// on the unbalanced-BST model of tool/models/stl_models.cpp), std::vector.
//
// Concrete per entry: period, chain length, the block timestamps (one representative sequence per pattern) and the position of the
// start time relative to the period-end median times (every position incl. equality, plus ALWAYS_ACTIVE / NEVER_ACTIVE).
// Symbolic: every block's nVersion (32 bits), deployment bit, threshold, timeout (64 bits), min_activation_height.
// Why timestamps/start are not symbolic: `if (pindexPrev->GetMedianTimePast() < nTimeStart) { cache[..] = DEFINED; break; }` decides
// how many map nodes / vector elements exist afterwards; with a symbolic outcome CBMC merges heaps of different shape and every later
// tree walk / sort runs on "invalid objects" (measured: 8.1 M variables, 5 GB for a ONE-block chain). Inside a query the real
// functions are run once per queried block (and per warm/query pair), all on the same symbolic chain.
#include <verif.h>
#include <verif_stubs_common.h>
#include <versionbits.h>
#include <versionbits_impl.h>
#include <consensus/params.h>
#include <chain.h>
#include <map>
#include <vector>

enum { S_DEFINED = 0, S_STARTED = 1, S_LOCKED_IN = 2, S_ACTIVE = 3, S_FAILED = 4 };
static_assert((int)ThresholdState::DEFINED == S_DEFINED && (int)ThresholdState::STARTED == S_STARTED && (int)ThresholdState::LOCKED_IN == S_LOCKED_IN &&
              (int)ThresholdState::ACTIVE == S_ACTIVE && (int)ThresholdState::FAILED == S_FAILED);

static constexpr uint32_t T0 = 1600000000u;
static constexpr int JIT[8] = {0, 250, 3000, 280, 100, 5000, 290, 50};   // blocks 2 and 5 (mod 8) carry far-future timestamps, their successors step back

// PER: period; NBLK: blocks 0..NBLK-1; TPAT: timestamp pattern; SIDX: start = MTP of the last block of period SIDX (SIDX == NPER: one past the
// last MTP, -1: ALWAYS_ACTIVE, -2: NEVER_ACTIVE); MODE 0: every block queried on a fresh cache + since-height + statistics, MODE 1: warm/query pairs
template <int PER, int NBLK, int TPAT, int SIDX, int MODE>
static void run()
{
    constexpr int NPER = NBLK / PER;                   // number of complete periods in the chain
    static_assert(SIDX >= -2 && SIDX <= NPER);
    CBlockIndex chain[NBLK];
    int32_t ver[NBLK];
    for (int i = 0; i < NBLK; i++) {
        ver[i] = nondet_i32();
        chain[i].nHeight = i; chain[i].nVersion = ver[i];
        chain[i].pprev = i ? &chain[i - 1] : nullptr;
        chain[i].BuildSkip();
        uint32_t t;
        if (TPAT == 0) t = T0 + 600u * i;                                                   // regular
        else if (TPAT == 1) t = (uint32_t)((int64_t)T0 + 600 * i + JIT[i % 8]);             // non-monotone timestamps
        else t = i ? (uint32_t)(chain[i - 1].GetMedianTimePast() + 1) : T0;                 // slowest clock the consensus rule allows
        chain[i].nTime = t;
        if (i) VASSERT((int64_t)t > chain[i - 1].GetMedianTimePast(), "harness: timestamp pattern obeys nTime > MTP(prev)");
    }
    // mtp[k]: median time past of the last block of period k (real GetMedianTimePast; its agreement with the median definition for symbolic timestamps is C05)
    int64_t mtp[NPER + 1];
    for (int k = 0; k < NPER; k++) mtp[k] = chain[k * PER + PER - 1].GetMedianTimePast();
    mtp[NPER] = NPER ? mtp[NPER - 1] + 1 : (int64_t)T0;

    Consensus::BIP9Deployment dep;
    const int bit = (int)nondet_range(0, 28);
    const int64_t start = SIDX == -1 ? Consensus::BIP9Deployment::ALWAYS_ACTIVE : SIDX == -2 ? Consensus::BIP9Deployment::NEVER_ACTIVE : mtp[SIDX >= 0 ? SIDX : 0];
    const int64_t timeout = nondet_i64();
    const int minh = nondet_i32();
    const uint32_t thr = nondet_u32();
    VASSUME(thr <= 0x7fffffffu);                        // Threshold() returns int
    dep.bit = bit; dep.nStartTime = start; dep.nTimeout = timeout; dep.min_activation_height = minh; dep.period = PER; dep.threshold = thr;
    const VersionBitsConditionChecker checker(dep);

    // ---- reference: forward BIP9 automaton over complete periods (written from the BIP / property text) ----
    bool sig[NBLK]; int cnt[NPER + 1];
    for (int i = 0; i < NBLK; i++) { const uint32_t v = (uint32_t)ver[i]; sig[i] = (v >> 29) == 1 && ((v >> bit) & 1); }   // top bits 001 and deployment bit set
    for (int k = 0; k < NPER; k++) { cnt[k] = 0; for (int j = 0; j < PER; j++) if (sig[k * PER + j]) cnt[k]++; }
    int st[NPER + 1];                                   // st[k]: state of every block of period k (heights k*PER .. k*PER+PER-1)
    int since[NPER + 1];                                // first height of the run of equal states that period k belongs to
    st[0] = S_DEFINED; since[0] = 0;
    for (int k = 1; k <= NPER; k++) {
        const int prev = st[k - 1]; int next = prev;
        if (prev == S_DEFINED) { if (mtp[k - 1] >= start) next = S_STARTED; }
        else if (prev == S_STARTED) {
            if ((int64_t)cnt[k - 1] >= (int64_t)(int32_t)thr) next = S_LOCKED_IN;     // lock-in takes precedence over the timeout
            else if (mtp[k - 1] >= timeout) next = S_FAILED;
        } else if (prev == S_LOCKED_IN) { if ((int64_t)k * PER >= (int64_t)minh) next = S_ACTIVE; }
        st[k] = next;
        since[k] = (next == prev) ? since[k - 1] : k * PER;
    }
    if (SIDX == -1) for (int k = 0; k <= NPER; k++) { st[k] = S_ACTIVE; since[k] = 0; }
    if (SIDX == -2) for (int k = 0; k <= NPER; k++) { st[k] = S_FAILED; since[k] = 0; }
    for (int k = 0; k <= NPER; k++) if (st[k] == S_DEFINED) since[k] = 0;

    bool ok_state = true, ok_since = true, ok_warm = true, ok_stats = true, ok_cachekeys = true;
    if (MODE == 0) {
        for (int q = -1; q < NBLK; q++) {
            const CBlockIndex* const prevq = q >= 0 ? &chain[q] : nullptr;
            const int kq = (q + 1) / PER;
            ThresholdConditionCache fresh;
            const int got = (int)checker.GetStateFor(prevq, fresh);
            verif_observe(got);
            if (got != st[kq]) ok_state = false;
            // every cache key is nullptr or the last block of a period
            for (const auto& kv : fresh) if (kv.first != nullptr && (kv.first->nHeight + 1) % PER != 0) ok_cachekeys = false;
            ThresholdConditionCache c2;
            const int got_since = checker.GetStateSinceHeightFor(prevq, c2);
            verif_observe(got_since);
            if (got_since != since[kq]) ok_since = false;
        }
        VASSERT(ok_state, "GetStateFor(block, fresh cache) == forward BIP9 automaton, for every block of the chain (same state for all blocks of a period)");
        VASSERT(ok_since, "GetStateSinceHeightFor == first height of the current run of equal states (0 for DEFINED / always / never)");
        VASSERT(ok_cachekeys, "cache keys are nullptr or period-end blocks");
        // statistics of the period containing block q
        for (int q = 0; q < NBLK; q++) {
            std::vector<bool> sb;
            const BIP9Stats s = checker.GetStateStatisticsFor(&chain[q], &sb);
            const int first = q - q % PER; int c = 0;
            for (int j = first; j <= q; j++) if (sig[j]) c++;
            verif_observe(s.count); verif_observe(s.elapsed); verif_observe(s.possible);
            if (!(s.period == (uint32_t)PER && s.threshold == thr && s.elapsed == (uint32_t)(q % PER + 1) && s.count == (uint32_t)c)) ok_stats = false;
            // possible <=> the blocks still to come in the period can lift the count to the threshold
            if (thr <= (uint32_t)PER && s.possible != ((int64_t)PER - (int64_t)thr >= (int64_t)(q % PER + 1 - c))) ok_stats = false;
            if ((int)sb.size() != q % PER + 1) ok_stats = false;
            else for (int j = first; j <= q; j++) if (sb[j - first] != sig[j]) ok_stats = false;
        }
        VASSERT(ok_stats, "GetStateStatisticsFor: period, threshold, elapsed, count, possible and the per-block signalling vector");
        const BIP9Stats s0 = checker.GetStateStatisticsFor(nullptr);
        VASSERT(s0.elapsed == 0 && s0.count == 0 && !s0.possible, "statistics for the null block are empty");
    } else {
        // cache independence: every ordered pair (warming query, main query), incl. the same block twice
        for (int w = -1; w < NBLK; w++) {
            for (int q = -1; q < NBLK; q++) {
                if (MODE == 2 && !(w % PER == PER - 1 || w == -1 || q == w + 1 || q == w - 1)) continue;   // thinner pair set for long chains
                ThresholdConditionCache warm;
                const int got_w = (int)checker.GetStateFor(w >= 0 ? &chain[w] : nullptr, warm);
                const int got_q = (int)checker.GetStateFor(q >= 0 ? &chain[q] : nullptr, warm);
                verif_observe(got_q);
                if (got_w != st[(w + 1) / PER] || got_q != st[(q + 1) / PER]) ok_warm = false;
            }
        }
        VASSERT(ok_warm, "cache independence: GetStateFor on a cache warmed by an earlier query (any block) == automaton == fresh-cache result");
    }
    if (SIDX == NPER) { VWITNESS(st[NPER] == S_DEFINED, "defined"); }
    else if (SIDX >= 0) {
        if (NPER - SIDX >= 1) { VWITNESS(st[NPER] == S_STARTED, "started"); }
        if (NPER - SIDX >= 2) { VWITNESS(st[NPER] == S_LOCKED_IN, "locked_in"); VWITNESS(st[NPER] == S_FAILED, "failed by timeout"); }
        if (NPER - SIDX >= 3) { VWITNESS(st[NPER] == S_ACTIVE, "active after lock-in"); VWITNESS(st[NPER] == S_LOCKED_IN && st[NPER - 1] == S_LOCKED_IN, "activation delayed by min_activation_height"); }
    }
    VREACH("end");
}
#define VERIF_ENTRY(name, ...) extern "C" void h_##name() { run<__VA_ARGS__>(); }
#include VERIF_ENTRIES_INC
