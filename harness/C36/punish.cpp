// C36 (decision kernels): PeerManagerImpl::MaybePunishNodeForBlock / Misbehaving / MaybeDiscourageAndDisconnect of net_processing.cpp, the real code, on a phantom
// PeerManagerImpl (typed raw storage; only m_peer_mutex, m_peer_map, m_banman, m_connman exist) and a phantom CNode (only m_permission_flags, m_conn_type, addr,
// fDisconnect exist). BanMan::Discourage, CConnman::DisconnectNode and CNetAddr::IsLocal are recorded/answered by the harness.
#include <verif.h>
#include <verif_stubs_common.h>
#include <algorithm>
#include <array>
#include <atomic>
#include <chrono>
#include <condition_variable>
#include <deque>
#include <functional>
#include <future>
#include <list>
#include <map>
#include <memory>
#include <optional>
#include <queue>
#include <ranges>
#include <set>
#include <span>
#include <string>
#include <string_view>
#include <thread>
#include <tuple>
#include <typeinfo>
#include <unordered_map>
#include <unordered_set>
#include <utility>
#include <variant>
#include <vector>
#include <sstream>
#include <iomanip>
#include <numeric>
#include <bitset>
#include <shared_mutex>
#include <verif_ranges.h>
// clang-14 cannot instantiate libstdc++'s `x | std::views::reverse`: inside net_processing.cpp the token `views` is redirected to a namespace with an equivalent
// reverse adaptor (same rewrite as tool/overlay.py applies to linked TUs; neither use is on a path of this harness)
namespace std { namespace verif_rv { struct reverse_t {}; inline constexpr reverse_t reverse{}; template <class C> auto operator|(C& c, reverse_t) { return verif_ranges::reversed(c); } } }
#define views verif_rv
#define private public
#define protected public
#include <net_processing.cpp>
#undef private
#undef protected
#undef views

// ---- environment: logging off, no real threads
bool util::log::ShouldDebugLog(uint64_t) { return false; }
void util::log::Log(util::log::Entry) {}
std::string util::ThreadGetInternalName() { return std::string(); }
NodeClock::time_point NodeClock::now() noexcept { return NodeClock::time_point{}; }
std::chrono::seconds GetMockTime() { return std::chrono::seconds{0}; }
std::chrono::system_clock::time_point std::chrono::system_clock::now() noexcept { return {}; }
extern "C" {
int pthread_mutex_lock(pthread_mutex_t*) noexcept { return 0; }
int pthread_mutex_trylock(pthread_mutex_t*) noexcept { return 0; }
int pthread_mutex_unlock(pthread_mutex_t*) noexcept { return 0; }
}
namespace std { void __throw_system_error(int) { __CPROVER_assert(0, "mutex error"); __CPROVER_assume(0); __builtin_trap(); } }

// ---- recorded collaborators
static int g_discourage_calls, g_disconnectnode_calls, g_islocal_calls; static const CNetAddr* g_discourage_arg; static const CNetAddr* g_disconnect_arg; static const CNetAddr* g_islocal_arg;
static bool g_is_local;
void BanMan::Discourage(const CNetAddr& a) { g_discourage_calls++; g_discourage_arg = &a; }
bool CConnman::DisconnectNode(const CNetAddr& a) { g_disconnectnode_calls++; g_disconnect_arg = &a; return true; }
bool CNetAddr::IsLocal() const { g_islocal_calls++; g_islocal_arg = this; return g_is_local; }

#ifndef HAVE_PEER
#define HAVE_PEER 1
#endif
#ifndef HAVE_BANMAN
#define HAVE_BANMAN 1
#endif

struct World { PeerManagerImpl* pm; Peer* peer; CNode* node; };

static World make_world(NodeId id, bool inbound)
{
    World w;
    // typed raw storage, no constructor: only the members named above are brought to life
    w.pm = static_cast<PeerManagerImpl*>(::operator new(sizeof(PeerManagerImpl)));
    new (&w.pm->m_peer_mutex) Mutex();
    __asm__ volatile("" ::: "memory");   // keep the two initialisations apart: merged into one memset across members, the map header is no longer constant-propagated
    new (&w.pm->m_peer_map) std::map<NodeId, PeerRef>();
    __asm__ volatile("" ::: "memory");
    static unsigned char banman_dummy[8];
    *const_cast<BanMan**>(&w.pm->m_banman) = HAVE_BANMAN ? reinterpret_cast<BanMan*>(banman_dummy) : nullptr;
    // m_connman (reference member) stays unset: its only use is as `this` of CConnman::DisconnectNode, which is the recording stub below
    w.peer = nullptr;
    if (HAVE_PEER) {
        PeerRef p(new Peer(id, NODE_NONE, inbound));
        w.peer = p.get();
        w.pm->m_peer_map.emplace_hint(w.pm->m_peer_map.end(), id, std::move(p));
    }
    w.node = static_cast<CNode*>(::operator new(sizeof(CNode)));
    return w;
}

// reference table, from the property text and the comments documenting BlockValidationResult
static bool ref_block_punish(int result, bool via_compact, bool have_peer, bool inbound)
{
    if (!have_peer) return false;
    switch (result) {
    case (int)BlockValidationResult::BLOCK_CONSENSUS: case (int)BlockValidationResult::BLOCK_MUTATED: return !via_compact;              // full block found invalid
    case (int)BlockValidationResult::BLOCK_CACHED_INVALID: return !via_compact && !inbound;                                             // known-invalid chain: outbound only
    case (int)BlockValidationResult::BLOCK_INVALID_HEADER: case (int)BlockValidationResult::BLOCK_INVALID_PREV: return true;          // invalid proof of work / builds on invalid
    case (int)BlockValidationResult::BLOCK_MISSING_PREV: return true;
    default: return false;   // UNSET, TIME_FUTURE, HEADER_LOW_WORK: never
    }
}

extern "C" void h_punish()
{
    const NodeId id = 7;   // concrete: the id only selects the map node
    const bool inbound = nondet_bool();
    World w = make_world(id, inbound);
    const int result = (int)nondet_range(0, 8);
    const bool via_compact = nondet_bool();
    BlockValidationState state;
    state.m_mode = BlockValidationState::ModeState::M_INVALID; state.m_result = (BlockValidationResult)result;
    const std::string message;   // empty: message text is not a subject
    const NodeId asked = HAVE_PEER ? id : id + 1;
    w.pm->MaybePunishNodeForBlock(asked, state, via_compact, message);
    const bool want = ref_block_punish(result, via_compact, HAVE_PEER, inbound);
    if (HAVE_PEER) {
        verif_observe(w.peer->m_should_discourage);
        VASSERT(w.peer->m_should_discourage == want, "MaybePunishNodeForBlock marks the peer for punishment exactly in the cases the rules list");
        VWITNESS(w.peer->m_should_discourage, "punished"); VWITNESS(!w.peer->m_should_discourage, "not_punished");
        VWITNESS(result == (int)BlockValidationResult::BLOCK_CACHED_INVALID && w.peer->m_should_discourage, "cached_invalid_outbound_punished");
    }
    VASSERT(g_discourage_calls == 0 && g_disconnectnode_calls == 0, "no immediate disconnection or discouragement from MaybePunishNodeForBlock");
    VREACH("end");
}

extern "C" void h_discourage()
{
    World w = make_world(7, nondet_bool());
    Peer& peer = *w.peer; CNode& node = *w.node;
    const bool flagged = nondet_bool();
    peer.m_should_discourage = flagged;
    const uint32_t perm = nondet_u32();
    const int ct = (int)nondet_range(0, 5);
    *const_cast<NetPermissionFlags*>(&node.m_permission_flags) = (NetPermissionFlags)perm;
    *const_cast<ConnectionType*>(&node.m_conn_type) = (ConnectionType)ct;
    new (&node.fDisconnect) std::atomic_bool(false);
    g_is_local = nondet_bool();
    const bool r = w.pm->MaybeDiscourageAndDisconnect(node, peer);
    const bool noban = (perm & (1u << 4)) != 0 && (perm & (1u << 6)) != 0;      // NoBan = (1 << 4) | Download(1 << 6)
    const bool manual = ct == (int)ConnectionType::MANUAL;
    const bool disconnected = node.fDisconnect.load() || g_disconnectnode_calls > 0;
    verif_observe((r ? 1 : 0) + (disconnected ? 2 : 0) + g_discourage_calls * 4);
    VASSERT(!peer.m_should_discourage, "the pending-punishment flag is consumed");
    if (!flagged || noban || manual) {
        VASSERT(!r && !disconnected && g_discourage_calls == 0, "noban peers, manual connections and unflagged peers are never disconnected or discouraged");
    } else if (g_is_local) {
        VASSERT(r && node.fDisconnect.load() && g_discourage_calls == 0 && g_disconnectnode_calls == 0, "local address: disconnected but not discouraged");
    } else {
        VASSERT(r && disconnected, "any other flagged peer is disconnected");
        VASSERT(g_discourage_calls == (HAVE_BANMAN ? 1 : 0) && (!HAVE_BANMAN || g_discourage_arg == &node.addr), "and its address is discouraged");
        VASSERT(g_disconnectnode_calls == 1 && g_disconnect_arg == &node.addr, "all connections to that address are closed");
    }
    VASSERT(g_islocal_calls == 0 || g_islocal_arg == &node.addr, "locality is that of the peer's address");
    VWITNESS(flagged && noban, "flagged_noban"); VWITNESS(flagged && manual && !noban, "flagged_manual");
    VWITNESS(flagged && !noban && !manual && g_is_local, "flagged_local"); VWITNESS(flagged && !noban && !manual && !g_is_local, "flagged_normal");
    VREACH("end");
}

// end to end over the two kernels: a block verdict about a peer, then the per-peer punishment step of the message loop
extern "C" void h_block_to_disconnect()
{
    const bool inbound = nondet_bool();
    World w = make_world(3, inbound);
    Peer& peer = *w.peer; CNode& node = *w.node;
    const int result = (int)nondet_range(0, 8);
    const bool via_compact = nondet_bool();
    BlockValidationState state; state.m_mode = BlockValidationState::ModeState::M_INVALID; state.m_result = (BlockValidationResult)result;
    const uint32_t perm = nondet_u32(); const int ct = (int)nondet_range(0, 5);
    *const_cast<NetPermissionFlags*>(&node.m_permission_flags) = (NetPermissionFlags)perm;
    *const_cast<ConnectionType*>(&node.m_conn_type) = (ConnectionType)ct;
    new (&node.fDisconnect) std::atomic_bool(false);
    g_is_local = nondet_bool();
    const std::string message;
    w.pm->MaybePunishNodeForBlock(3, state, via_compact, message);
    const bool r = w.pm->MaybeDiscourageAndDisconnect(node, peer);
    const bool noban = (perm & (1u << 4)) != 0 && (perm & (1u << 6)) != 0;
    const bool manual = ct == (int)ConnectionType::MANUAL;
    const bool disconnected = node.fDisconnect.load() || g_disconnectnode_calls > 0;
    const bool discouraged = g_discourage_calls > 0;
    verif_observe((r ? 1 : 0) + (disconnected ? 2 : 0) + (discouraged ? 4 : 0));
    // property text
    if (noban || manual) VASSERT(!disconnected && !discouraged, "noban peers and manual connections are never disconnected or discouraged for misbehaviour");
    const bool full_block_invalid = !via_compact && (result == (int)BlockValidationResult::BLOCK_CONSENSUS || result == (int)BlockValidationResult::BLOCK_MUTATED);
    const bool bad_pow_header = result == (int)BlockValidationResult::BLOCK_INVALID_HEADER;
    if (!noban && !manual && (full_block_invalid || bad_pow_header)) {
        VASSERT(disconnected, "any other peer whose full block is invalid or whose header has invalid proof of work is disconnected");
        VASSERT(discouraged == (!g_is_local && HAVE_BANMAN), "and discouraged unless its address is local");
    }
    if (result == (int)BlockValidationResult::BLOCK_RESULT_UNSET || result == (int)BlockValidationResult::BLOCK_TIME_FUTURE || result == (int)BlockValidationResult::BLOCK_HEADER_LOW_WORK)
        VASSERT(!disconnected && !discouraged, "no punishment for a block that is merely early, low-work or unjudged");
    if (via_compact && (result == (int)BlockValidationResult::BLOCK_CONSENSUS || result == (int)BlockValidationResult::BLOCK_MUTATED || result == (int)BlockValidationResult::BLOCK_CACHED_INVALID))
        VASSERT(!disconnected && !discouraged, "compact-block relay of a block that turns out invalid is not punished");
    VWITNESS(disconnected && discouraged, "disconnected_and_discouraged"); VWITNESS(disconnected && !discouraged, "disconnected_only"); VWITNESS(!disconnected, "untouched");
    VREACH("end");
}
