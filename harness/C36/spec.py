from vlib import H
PROPERTY = 'C36'
LEVEL = 'model_checking'
CLAIM = ('Decision kernels of peer punishment, the real code of net_processing.cpp on phantom objects: PeerManagerImpl::MaybePunishNodeForBlock (with GetPeerRef and Misbehaving) marks a peer for punishment exactly for: '
         'a full (non-compact) block invalid by consensus or mutated; a cached-invalid block from an outbound peer not via compact block; an invalid header / invalid previous block / missing previous block; and never for '
         'BLOCK_RESULT_UNSET, BLOCK_TIME_FUTURE, BLOCK_HEADER_LOW_WORK or compact-block relay of an invalid block. PeerManagerImpl::MaybeDiscourageAndDisconnect never disconnects or discourages a peer that is not marked, '
         'has the NoBan permission or is a manual connection; disconnects but does not discourage a peer with a local address; otherwise discourages the address (BanMan::Discourage) and closes its connections '
         '(CConnman::DisconnectNode). Composition of the two for one block verdict matches the property text. All BlockValidationResult values, via_compact_block, inbound flag, all 32 permission bits, all connection types and address locality are symbolic. '
         'The message-sequence level (which messages lead to these calls; transactions never reaching Misbehaving) is not decided here.')
ST = ['PeerManagerImpl: typed raw storage, only m_peer_mutex, m_peer_map, m_banman constructed/set (no constructor run)', 'CNode: typed raw storage, only m_permission_flags, m_conn_type, fDisconnect set; addr used by identity only',
      'BanMan::Discourage -> recorder', 'CConnman::DisconnectNode -> recorder', 'CNetAddr::IsLocal -> symbolic answer (recorded)', 'logging off (util::log::ShouldDebugLog false, util::log::Log empty)',
      'pthread_mutex_* -> no-op', 'std::views::reverse inside net_processing.cpp redirected to an equivalent adaptor (clang-14; not on any path of the harness)', 'shared_ptr<Peer> disposal emptied (deallocation is not modelled)', 'tinyformat -> empty strings', 'assertion_fail -> CBMC assertion']
FN = ['PeerManagerImpl::MaybePunishNodeForBlock', 'PeerManagerImpl::Misbehaving', 'PeerManagerImpl::GetPeerRef', 'PeerManagerImpl::MaybeDiscourageAndDisconnect (net_processing.cpp)', 'CNode::HasPermission/IsManualConn, NetPermissions::HasFlag (net.h, net_permissions.h)', 'Peer constructor', 'std::map<NodeId, PeerRef>']
ERASE = '_ZNSt8_Rb_treeIlSt4pairIKlSt10shared_ptrIN12_GLOBAL__N_14PeerEEESt10_Select1stIS6_ESt4lessIlESaIS6_EE8_M_eraseEPSt13_Rb_tree_nodeIS6_E'
COMMON = dict(link=[], shadow=['nofmt'], fsarray=2048, noop=['_ZNSt15_Sp_counted_ptrIPN12_GLOBAL__N_14PeerELN9__gnu_cxx12_Lock_policyE2EE10_M_disposeEv'], unwind=64, memunwind=72, timeout=600, objbits=11, functions=FN, stubs=ST)
HARNESSES = [
    H('punish', 'punish.cpp', 'h_punish', variants=[{'HAVE_PEER': 1}, {'HAVE_PEER': 0}], bounds='all 9 BlockValidationResult values, via_compact_block, inbound symbolic; peer known / unknown', **dict(COMMON, noop=[])),
    H('discourage', 'punish.cpp', 'h_discourage', variants=[{'HAVE_BANMAN': 1}, {'HAVE_BANMAN': 0}], bounds='pending flag, 32 permission bits, 6 connection types, address locality symbolic; with / without BanMan', **COMMON),
    H('block_to_disconnect', 'punish.cpp', 'h_block_to_disconnect', variants=[{'HAVE_BANMAN': 1}], bounds='one block verdict followed by the punishment step; everything above symbolic', **COMMON),
]
