from vlib import H
PROPERTY='T00'; CLAIM='dev'; DISABLED=True
HARNESSES=[H('cc','cc.cpp','h_cc',link=['coins.cpp', 'primitives/transaction.cpp', 'script/script.cpp', 'uint256.cpp', 'hash.cpp'],variants=[{'STEP':4}],shadow=['nofmt','nopool'],unwind=20,timeout=100,objbits=11,memunwind=112)]
