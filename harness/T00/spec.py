from vlib import H
PROPERTY='T00'; CLAIM='dev'; DISABLED=True
HARNESSES=[H('sc','sc.cpp','h_sc',link=['script/script.cpp','uint256.cpp'],shadow=['nofmt'],unwind=8,timeout=100,objbits=10,memunwind=40)]
