from vlib import H
PROPERTY='T00'; CLAIM='dev'; DISABLED=True
HARNESSES=[H('t','t.cpp','h_t',link=['primitives/transaction.cpp','uint256.cpp','hash.cpp','script/script.cpp'],variants=[{'STEP':1},{'STEP':2}],unwind=12,timeout=60,objbits=10)]
