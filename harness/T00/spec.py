from vlib import H
PROPERTY='T00'; CLAIM='dev'; DISABLED=True
HARNESSES=[H('ev','ev.cpp','h_ev',link=['script/interpreter.cpp', 'script/script.cpp', 'script/script_error.cpp', 'primitives/transaction.cpp', 'uint256.cpp', 'hash.cpp', 'crypto/ripemd160.cpp', 'crypto/sha1.cpp', 'crypto/sha256.cpp'],shadow=['nofmt'],unwind=8,timeout=400,objbits=11,memunwind=40)]
