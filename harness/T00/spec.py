from vlib import H
PROPERTY='T00'; CLAIM='dev'; DISABLED=True
HARNESSES=[H('um','um.cpp','h_um',variants=[{'STEP':1},{'STEP':2},{'STEP':3}],unwind=20,timeout=60,objbits=10,memunwind=112)]
