#include <verif.h>
#include <verif_hash_nondet.h>
#include <primitives/transaction.h>
extern "C" void h_t() {
    CMutableTransaction m;
    m.vin.resize(1); m.vout.resize(1);
    int c = 0;
#if STEP >= 1
    for (auto& in : m.vin) { in.nSequence = nondet_u32(); c++; }
#endif
#if STEP >= 2
    m.vin[0].prevout.n = nondet_u32();
    const CTransaction tx(std::move(m));
    for (auto& in : tx.vin) { c++; }
#endif
    VASSERT(c >= 1, "count");
    VREACH("end");
}
