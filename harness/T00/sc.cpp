#include <verif.h>
#include <verif_stubs_common.h>
#include <script/script.h>
extern "C" void h_sc() {
    CScript script;
    script << (opcodetype)0x8b;
    opcodetype op = OP_0; std::vector<unsigned char> v;
    CScript::const_iterator pc = script.begin();
    bool r = script.GetOp(pc, op, v);
    int c = 0;
    for (int i = 0; i < (int)op - 0x88; i++) c++;    // 3 iterations iff op is known to be 0x8b
    VASSERT(r && c == 3, "op");
    VREACH("end");
}
