#include <verif.h>
#include <unordered_map>
extern "C" void h_um() {
    std::unordered_map<int, int> m;
    m[1] = (int)nondet_u32();
#if STEP >= 2
    m[2] = (int)nondet_u32();
#endif
#if STEP >= 3
    m.erase(1);
#endif
    VASSERT(m.count(2) == (STEP >= 2), "count");
    VREACH("end");
}
