#include <verif.h>
#include <verif_stubs_common.h>
#include <verif_stubs_pubkey.h>
#include <script/interpreter.h>
#include <script/script.h>
extern "C" void h_ev() {
    std::vector<std::vector<unsigned char>> stack;
    CScript script;
    script << (opcodetype)0x8b;
    uint64_t fl = 0;
    if (nondet_bool()) fl |= script_verify_flags{SCRIPT_VERIFY_MINIMALDATA}.as_int();
    if (nondet_bool()) fl |= script_verify_flags{SCRIPT_VERIFY_DISCOURAGE_UPGRADABLE_NOPS}.as_int();
    stack.reserve(4);
    const BaseSignatureChecker checker;
    ScriptError err = SCRIPT_ERR_UNKNOWN_ERROR;
    const bool ok = EvalScript(stack, script, script_verify_flags::from_int(fl), checker, SigVersion::BASE, &err);
    VASSERT(!ok && err == SCRIPT_ERR_INVALID_STACK_OPERATION, "1ADD on empty stack");
    VREACH("end");
}
