#include "../C15/coins_common.h"
__attribute__((noinline)) static int probe(int k) { COutPoint a = KEY(k); return KEYIDX(a); }
extern "C" void h_kk()
{
    int k = probe(1);
    int c = 0;
    for (int i = 0; i < k + 2; i++) c++;   // 3 iterations iff KEYIDX folds to the constant 1
    VASSERT(c == 3, "idx");
    VREACH("end");
}
