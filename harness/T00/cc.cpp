#include "../C15/coins_common.h"
static ModelCoin cm[NKEYS];
static bool same(const std::optional<Coin>& c, const ModelCoin& m)
{
    if (c.has_value() != m.present) return false;
    if (!c) return true;
    return c->out.nValue == m.value && c->nHeight == m.height && (bool)c->fCoinBase == m.coinbase && !c->IsSpent();
}
__attribute__((noinline)) static void doget(int op, int k, CCoinsViewCache& child)
{
    switch (op) {
    case 4:
#if STEP == 3
    { auto c = child.GetCoin(KEY(k)); VASSERT(c.has_value(), "got coin"); }
#elif STEP == 4
    { VASSERT(same(child.GetCoin(KEY(k)), cm[k]), "same"); }
#else
    { VASSERT(same(child.GetCoin(KEY(k)), cm[k]), "same"); VASSERT(child.HaveCoin(KEY(k)) == cm[k].present, "have"); }
#endif
    break;
    default: break;
    }
}
template <int PRESENT, int OP1, int K1>
static void run()
{
    ModelView base;
    for (int k = 0; k < NKEYS; k++) { base.m[k].present = (PRESENT >> k) & 1; base.m[k].value = (int64_t)nondet_range(0, 2100000000000000ULL); base.m[k].height = (uint32_t)nondet_range(0, 0x7fffffff); base.m[k].coinbase = nondet_bool(); cm[k] = base.m[k]; }
    CCoinsViewCache parent(&base, true);
    CCoinsViewCache child(&parent, true);
    doget(OP1, K1, child);
    VREACH("end");
}
extern "C" void h_cc() { run<1, 4, 0>(); }
