// C26 (kernel level): replacement fee rules. Real PaysForRBF (policy/rbf.cpp). CFeeRate::GetFee is replaced by a recorder with an unconstrained result here;
// GetFee itself (= ceil(rate*vsize/1000), the value PaysForRBF compares with) is decided by the getfee harness (harness/C30/feerate.cpp, run as part of this property).
// Formatting of the reject string is stubbed (tinyformat shadow header, FormatMoney recorder); which rule fired is observed through the
// amounts handed to FormatMoney.
#include <verif.h>
#include <policy/rbf.h>
#include <policy/feerate.h>
#include <util/moneystr.h>
#include <consensus/amount.h>
#include <climits>

typedef __int128 i128;
static int64_t g_fm[4]; static int g_nfm;
// stub: txid formatting (only used inside the reject message)
template <unsigned int BITS> std::string base_blob<BITS>::ToString() const { return std::string(); }
template std::string base_blob<256>::ToString() const;
std::string FormatMoney(CAmount n) { if (g_nfm < 4) g_fm[g_nfm] = n; g_nfm++; return std::string(); }   // stub: recorder


// stub: records the call, returns an unconstrained amount (one value per call site order; PaysForRBF may call it twice with the same arguments)
static int g_ncalls; static int32_t g_vb[2]; static int64_t g_rate_fee[2]; static int32_t g_rate_size[2]; static int64_t g_need;
CAmount CFeeRate::GetFee(int32_t virtual_bytes) const
{
    if (g_ncalls < 2) { g_vb[g_ncalls] = virtual_bytes; g_rate_fee[g_ncalls] = m_feerate.fee; g_rate_size[g_ncalls] = m_feerate.size; }
    g_ncalls++;
    return g_need;   // GetFee is a pure function of (rate, size): same result on both calls
}

extern "C" void h_paysforrbf()
{
    // fees: sums of modified fees, may be negative (prioritisetransaction); |fee| <= 2^61 so that the difference is representable
    const int64_t orig = nondet_i64(), repl = nondet_i64();
    VASSUME(orig >= -((int64_t)1 << 61) && orig <= ((int64_t)1 << 61));
    VASSUME(repl >= -((int64_t)1 << 61) && repl <= ((int64_t)1 << 61));
    const uint64_t vsize = nondet_range(0, INT32_MAX);
    const int64_t rate = nondet_i64();
    g_need = nondet_i64();           // the incremental relay fee for the replacement's size, any int64
    const CFeeRate relay{rate};
    const Txid txid{};
    g_nfm = 0; g_ncalls = 0;
    const std::optional<std::string> err = PaysForRBF(orig, repl, (size_t)vsize, relay, txid);
    const bool ok = !err.has_value();
    // property text: "pays at least the total modified fees of everything it evicts plus the incremental relay fee for its own size"
    const bool want = repl >= orig && (i128)repl - (i128)orig >= (i128)g_need;
    verif_observe(ok);
    VASSERT(ok == want, "PaysForRBF accepts iff replacement fees >= original fees + relay fee for its own size (and >= original fees)");
    if (repl >= orig) {
        VASSERT(g_ncalls >= 1 && g_vb[0] == (int32_t)vsize && g_rate_fee[0] == rate && g_rate_size[0] == 1000, "the relay fee is evaluated for the replacement's own vsize with the given rate");
        if (g_ncalls == 2) VASSERT(g_vb[1] == (int32_t)vsize && g_rate_fee[1] == rate && g_rate_size[1] == 1000, "second evaluation (message) uses the same arguments");
    }
    if (!ok) {
        VASSERT(g_nfm == 2, "a rejection reports exactly two amounts");
        if (repl < orig) VASSERT(g_fm[0] == repl && g_fm[1] == orig && g_ncalls == 0, "rule 3 (fees below the conflicting fees) is decided first");
        else VASSERT(g_fm[0] == repl - orig && g_fm[1] == g_need, "rule 4 reports the surplus and the required relay fee");
    } else VASSERT(g_nfm == 0 && g_ncalls == 1, "no formatting on acceptance");
    VWITNESS(ok && (i128)repl - orig == g_need && g_need > 0, "accepted at the exact threshold");
    VWITNESS(!ok && repl >= orig && (i128)repl - orig + 1 == g_need, "rejected one satoshi below the threshold");
    VWITNESS(!ok && repl < orig, "rule 3 rejection");
    VWITNESS(ok && orig < 0, "negative original fees");
    VREACH("end");
}
