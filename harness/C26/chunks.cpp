// C26 / C30: CompareChunks (util/feefrac.cpp, real function linked) equals the definition of feerate-diagram comparison:
// diagram(x) is the piecewise-linear function through (0,0) and the cumulative (size, fee) points, constant after the last point;
// diagram A is "better somewhere" iff A(x) > B(x) at some breakpoint x of either diagram (the difference of two piecewise-linear functions
// is piecewise linear with breakpoints in the union, so its sign pattern is decided at the breakpoints).
// Oracle: every breakpoint of either diagram is located on the other diagram (segment search) and compared exactly by 128-bit
// cross-multiplication; written from that definition (double loop), not from the merge walk of the implementation.
#include <verif.h>
#include <util/feefrac.h>
#include <compare>
#include <span>

#ifndef N0
#define N0 2
#endif
#ifndef N1
#define N1 2
#endif
#ifndef FB      // fee bits (signed): fee in [-2^(FB-1), 2^(FB-1))
#define FB 16
#endif
#ifndef SB      // size bits: size in [1, 2^SB]
#define SB 8
#endif
typedef __int128 i128;

// narrow symbolic values: by masking (SAT back ends) or by range assumption (integer back end, -DRANGE_INPUTS)
#ifdef RANGE_INPUTS
static int64_t sym_fee() { return (int64_t)nondet_range(0, (1ull << FB) - 1) - ((int64_t)1 << (FB - 1)); }
static int32_t sym_size() { return 1 + (int32_t)nondet_range(0, (1u << SB) - 1); }
#else
static int64_t sym_fee() { return (int64_t)(nondet_u64() & ((1ull << FB) - 1)) - ((int64_t)1 << (FB - 1)); }
static int32_t sym_size() { return 1 + (int32_t)(nondet_u32() & ((1u << SB) - 1)); }
#endif
#ifdef SZ0   // concrete chunk sizes (shape), fees symbolic and wide: every product is linear in the symbolic values
static const int32_t CS0[] = {SZ0, 0}, CS1[] = {SZ1, 0};
#endif
struct Dia { int n; int64_t X[4], Y[4]; };   // cumulative points, index 0 = origin

// is the point (x,y), x > 0, above (+1) / on (0) / below (-1) diagram d?  With [A,B] the segment of d with A.x < x <= B.x:
//   d(x) = A.y + (B.y-A.y)*(x-A.x)/(B.x-A.x), so  y ? d(x)  <=>  (y-A.y)*(B.x-A.x) ? (B.y-A.y)*(x-A.x)   (B.x-A.x > 0);
// right of the last point d is constant.
static int side_of(const Dia& d, int64_t x, int64_t y)
{
    int res = y > d.Y[d.n] ? 1 : y < d.Y[d.n] ? -1 : 0;
    for (int j = d.n - 1; j >= 0; j--) {
        if (d.X[j] < x && x <= d.X[j + 1]) {
            const i128 l = (i128)(y - d.Y[j]) * (int32_t)(d.X[j + 1] - d.X[j]), r = (i128)(d.Y[j + 1] - d.Y[j]) * (int32_t)(x - d.X[j]);
            res = l > r ? 1 : l < r ? -1 : 0;
        }
    }
    return res;
}

extern "C" void h_comparechunks()
{
    FeeFrac c0[N0 + 1], c1[N1 + 1];
    Dia d0, d1; d0.n = N0; d1.n = N1; d0.X[0] = d0.Y[0] = d1.X[0] = d1.Y[0] = 0;
    for (int i = 0; i < N0; i++) {
        c0[i].fee = sym_fee();
#ifdef SZ0
        c0[i].size = CS0[i];
#else
        c0[i].size = sym_size();
#endif
        d0.X[i + 1] = d0.X[i] + c0[i].size; d0.Y[i + 1] = d0.Y[i] + c0[i].fee;
    }
    for (int i = 0; i < N1; i++) {
        c1[i].fee = sym_fee();
#ifdef SZ0
        c1[i].size = CS1[i];
#else
        c1[i].size = sym_size();
#endif
        d1.X[i + 1] = d1.X[i] + c1[i].size; d1.Y[i + 1] = d1.Y[i] + c1[i].fee;
    }
#ifdef SORTED   // chunks as produced by linearization: non-increasing feerate
    for (int i = 0; i + 1 < N0; i++) VASSUME((i128)c0[i].fee * c0[i + 1].size >= (i128)c0[i + 1].fee * c0[i].size);
    for (int i = 0; i + 1 < N1; i++) VASSUME((i128)c1[i].fee * c1[i + 1].size >= (i128)c1[i + 1].fee * c1[i].size);
#endif
    const std::partial_ordering r = CompareChunks(std::span<const FeeFrac>(c0, N0), std::span<const FeeFrac>(c1, N1));
    bool better0 = false, better1 = false;
    for (int k = 1; k <= N0; k++) { const int c = side_of(d1, d0.X[k], d0.Y[k]); if (c > 0) better0 = true; if (c < 0) better1 = true; }
    for (int k = 1; k <= N1; k++) { const int c = side_of(d0, d1.X[k], d1.Y[k]); if (c > 0) better1 = true; if (c < 0) better0 = true; }
    const int got = r == std::partial_ordering::unordered ? 2 : r == std::partial_ordering::greater ? 1 : r == std::partial_ordering::less ? -1 : 0;
    const int want = (better0 && better1) ? 2 : better0 ? 1 : better1 ? -1 : 0;
    verif_observe(got);
    VASSERT(got == want, "CompareChunks: greater/less iff better somewhere and nowhere worse, equivalent iff pointwise equal, unordered iff each is better somewhere");
    VASSERT(std::is_gt(r) == (better0 && !better1), "is_gt (the test used by ImprovesFeerateDiagram) <=> strictly better somewhere and nowhere worse");
#if N0 > 0 && N1 > 0
    VWITNESS(got == 2, "incomparable diagrams");
    VWITNESS(got == 1, "first diagram strictly better");
    VWITNESS(got == -1, "second diagram strictly better");
#if N0 != N1 || N0 > 1
    VWITNESS(got == 0, "equivalent diagrams");
#else
    VWITNESS(got == 0, "equivalent diagrams");
#endif
#elif N0 + N1 > 0
    VWITNESS(got != 0, "non-empty versus empty differs");
    VWITNESS(got == 0, "all-zero-fee diagram equals the empty diagram");
#endif
    VREACH("end");
}
