from vlib import H
PROPERTY = 'C26'
LEVEL = 'model_checking'
CLAIM = ('Kernel level only (the conflict-set computation, the 100-cluster limit, sibling eviction and package RBF need the mempool and are not claimed). '
         '(1) real PaysForRBF (policy/rbf.cpp): returns "accepted" iff replacement_fees >= original_fees and replacement_fees - original_fees >= relay_fee.GetFee(replacement_vsize), rule 3 decided before rule 4, '
         'GetFee evaluated for the replacement\'s own vsize and the given rate; all fees with |fee| <= 2^61 (negative modified fees included), all vsize < 2^31, any rate; GetFee replaced by a recorder with an unconstrained result. '
         '(2) real CFeeRate::GetFee for sat/kvB rates (the value used in (1)) = ceil(rate*vsize/1000) for all int64 rates and all vsize (harness shared with C30; multiplication oracle, no division). '
         '(3) real CompareChunks (util/feefrac.cpp) = definition of feerate-diagram comparison (every breakpoint of either diagram located on the other diagram and compared exactly by 128-bit cross-multiplication), '
         'including is_gt <=> "strictly better somewhere and nowhere worse", which is the test ImprovesFeerateDiagram applies; shapes listed in bounds.')
INT = ['cvc5int', 'cvc5int-di', 'cvc5int-bw']
CC = '_Z13CompareChunksSt4spanIK7FeeFracLm18446744073709551615EES2_'   # main loop runs at most N0+N1 times


def conc(s0, s1):
    return {'N0': len(s0), 'N1': len(s1), 'SZ0': ','.join(map(str, s0)), 'SZ1': ','.join(map(str, s1)), 'FB': 40, 'RANGE_INPUTS': 1}


def sym(n0, n1, fb, sb):
    return {'N0': n0, 'N1': n1, 'FB': fb, 'SB': sb}


CQ = [conc((3, 5), (4, 4)), conc((2, 2, 2), (1, 3, 1)), conc((5,), (1, 2, 2))]
CT = CQ + [conc((1, 1, 1), (3,)), conc((4, 1), (1, 4, 2)), conc((2, 3, 4), (4, 3, 2)), conc((7,), (7,)), conc((1, 2, 3), ()), conc((), (2, 2)), conc((100, 250, 1000), (350, 999, 1))]
GF = [dict({'SIZE': 1000, 'PER_KVB': 1, 'FEE_CLASS': c}, **({'FUSED_RANGE': 1} if c == 0 else {})) for c in (0, 1, 2)]
HARNESSES = [
    H('paysforrbf', 'rbf.cpp', 'h_paysforrbf', link=['policy/rbf.cpp'], nofmt=True, backends=['default'], unwind=1, timeout=300,
      functions=['PaysForRBF (policy/rbf.cpp)', 'CFeeRate::CFeeRate(I)'],
      stubs=['CFeeRate::GetFee replaced by a recorder returning an unconstrained amount (its value is decided by harness getfee)', 'FormatMoney replaced by a recorder', 'base_blob<256>::ToString returns an empty string', 'tinyformat: strprintf/tfm::format return empty strings'],
      bounds='original/replacement fees in [-2^61, 2^61], vsize 0..2^31-1, any int64 rate, any int64 relay fee value',
      assumptions=['replacement_vsize < 2^31 (callers pass a transaction or package vsize; PaysForRBF narrows size_t to int32_t)']),
    H('getfee', 'harness/C30/feerate.cpp', 'h_getfee', variants=GF, backends=INT, witness_backends=['default'], unwind=1, timeout=300, diff_runs=12,
      functions=['CFeeRate::GetFee (policy/feerate.cpp)', 'FeeFrac::EvaluateFeeUp', 'FeeFrac::Mul', 'FeeFrac::Div', 'CeilDiv'],
      assumptions=['documented requirement of GetFee: the rounded-up result fits in int64_t'],
      bounds='all int64 rates in sat/kvB (three classes [0,2^33), >= 2^33, < 0), all vsize 0..2^31-1'),
    H('comparechunks', 'chunks.cpp', 'h_comparechunks', link=['util/feefrac.cpp'], variants=CQ, tvariants=CT, backends=['kissat', 'default', 'cadical'], unwind=5,
      unwindset=lambda v: '%s.1:%d' % (CC, v['N0'] + v['N1'] + 1), timeout=400, diff_runs=12,
      functions=['CompareChunks (util/feefrac.cpp)', 'ByRatio<FeeFrac> operator<=>', 'FeeFrac::Mul', 'FeeFrac operator+/-/+='],
      bounds='concrete chunk-size tuples %s (thorough adds %s), every chunk fee symbolic in [-2^39, 2^39), chunk feerates NOT assumed sorted' % ([(v['SZ0'], v['SZ1']) for v in CQ], [(v['SZ0'], v['SZ1']) for v in CT[len(CQ):]])),
    H('comparechunks_sym', 'chunks.cpp', 'h_comparechunks', link=['util/feefrac.cpp'], variants=[sym(1, 1, 5, 2)], tvariants=[sym(1, 1, 5, 2), sym(2, 1, 4, 2), sym(1, 2, 4, 2), sym(2, 2, 3, 2)], backends=['kissat', 'default', 'cadical'], unwind=5,
      unwindset=lambda v: '%s.1:%d' % (CC, v['N0'] + v['N1'] + 1), timeout=400, diff_runs=12,
      bounds='chunk sizes symbolic as well (all alignments of the two diagrams), narrow values: 1x1 chunks with 5-bit signed fees and sizes 1..4 (thorough: 2x1, 1x2 with 4-bit fees, 2x2 with 3-bit fees)'),
]
