// C48 kernel 5: ParseMoney (util/moneystr.cpp) incl. the real TrimString / ContainsNoNUL / LocaleIndependentAtoi<int64_t> (std::from_chars).
// Reference (moneystr.h: "Parse an amount denoted in full coins"): after trimming ASCII whitespace at both ends the text must be
//   DIGIT{0,10} [ '.' DIGIT{0,8} ]   (not empty; a lone "." denotes 0)
// and denotes whole * 100,000,000 + fraction (fraction right-padded with zeros to 8 digits) satoshi; accepted iff 0 <= value <= 21e14.
// Anything else (sign, exponent, inner whitespace, NUL, 9+ decimals, 11+ whole digits) is malformed and rejected.
#include <verif.h>
#include <util/moneystr.h>
#include <consensus/amount.h>
#include <string>

// FormatMoney is tinyformat/iostream based (not executed); never called on these paths. Stub keeps the link closed.
typedef __int128 i128;
static const int64_t REF_COIN = 100000000LL, REF_MAX = 2100000000000000LL;
static bool ref_space(char c) { return c == ' ' || c == '\f' || c == '\n' || c == '\r' || c == '\t' || c == '\v'; }
static bool ref_digit(char c) { return c >= '0' && c <= '9'; }

#ifndef NC
#define NC 3
#endif

// reference parser over c[0..n): n is concrete, all loops have concrete trip counts
template <int LEN> static bool ref_parse(const char* c, int64_t* out)
{
    for (int i = 0; i < LEN; i++) if (c[i] == 0) return false;
    int lo = 0, hi = LEN;   // trim
    for (int i = 0; i < LEN; i++) if (lo == i && ref_space(c[i])) lo = i + 1;
    for (int i = LEN - 1; i >= 0; i--) if (hi == i + 1 && hi > lo && ref_space(c[i])) hi = i;
    if (lo >= hi) return false;
    i128 whole = 0; int wd = 0, fd = 0; int64_t frac = 0; bool dot = false; bool bad = false;
    int64_t mult = REF_COIN / 10;
    for (int i = 0; i < LEN; i++) {
        if (i < lo || i >= hi || bad) continue;
        const char ch = c[i];
        if (!dot && ch == '.') { dot = true; continue; }
        if (!ref_digit(ch)) { bad = true; continue; }
        if (!dot) { whole = whole * 10 + (ch - '0'); wd++; }
        else { fd++; if (fd > 8) { bad = true; continue; } frac += mult * (ch - '0'); mult /= 10; }
    }
    if (bad || wd > 10) return false;
    const i128 v = whole * REF_COIN + frac;
    if (v < 0 || v > REF_MAX) return false;
    *out = (int64_t)v; return true;
}

// every character string of length NC
extern "C" void h_money_parse_all()
{
    char c[NC + 1];
    for (int i = 0; i < NC; i++) c[i] = (char)nondet_u8();
    c[NC] = 0;
    int64_t want = 0; const bool ok = ref_parse<NC>(c, &want);
    const std::string s(c, (size_t)NC);
    const std::optional<CAmount> got = ParseMoney(s);
    verif_observe(got.has_value()); verif_observe(got.has_value() ? (uint64_t)*got : 0);
    VASSERT(got.has_value() == ok, "ParseMoney accepts exactly the well-formed in-range amounts");
    if (got.has_value() && ok) VASSERT(*got == want, "parsed amount equals the reference value");
#if NC >= 1
    VWITNESS(got.has_value(), "some string accepted");
    VWITNESS(!got.has_value(), "some string rejected");
#endif
#if NC >= 3
    VWITNESS(got.has_value() && *got == 150000000, "1.5 coins");
    VWITNESS(got.has_value() && ref_space(c[0]) && ref_space(c[NC - 1]), "surrounding whitespace trimmed");
    VWITNESS(!got.has_value() && ref_digit(c[0]) && ref_space(c[1]) && ref_digit(c[2]), "inner whitespace rejected");
#endif
    VREACH("end");
}

// digit-shaped strings: W whole digits, optional '.', F fraction digits (shape concrete, digits symbolic): the canonical output shape of FormatMoney
#ifndef W
#define W 8
#endif
#ifndef F
#define F 8
#endif
#if F > 0 || defined(DOT)
#define SLEN (W + 1 + F)
#else
#define SLEN (W)
#endif
extern "C" void h_money_digits()
{
    char c[SLEN + 1];
    i128 whole = 0; int64_t frac = 0; int64_t mult = REF_COIN / 10;
    int k = 0;
#ifdef PIN
    // boundary probe: the first W-1 whole digits are the decimal digits of PIN (concrete), only the last whole digit
    // (and with PINF the last decimal; the other decimals are '0') is symbolic
    { int64_t pw = 1; for (int i = 0; i < W - 2; i++) pw *= 10;
      for (int i = 0; i < W - 1; i++) { const int d = (int)((PIN / pw) % 10); pw /= 10; c[k++] = (char)('0' + d); whole = whole * 10 + d; } }
    { const int d = (int)nondet_range(0, 9); c[k++] = (char)('0' + d); whole = whole * 10 + d; }
#else
    for (int i = 0; i < W; i++) { const int d = (int)nondet_range(0, 9); c[k++] = (char)('0' + d); whole = whole * 10 + d; }
#endif
#if SLEN > W
    c[k++] = '.';
    for (int i = 0; i < F; i++) {
#ifdef PINF
        const int d = (i == F - 1) ? (int)nondet_range(0, 9) : 0;
#else
        const int d = (int)nondet_range(0, 9);
#endif
        c[k++] = (char)('0' + d); if (i < 8) { frac += mult * d; mult /= 10; }
    }
#endif
    c[k] = 0;
    const i128 v = whole * REF_COIN + frac;
    const bool ok = SLEN > 0 && W <= 10 && F <= 8 && v <= REF_MAX;
    const std::string s(c, (size_t)SLEN);
    const std::optional<CAmount> got = ParseMoney(s);
    verif_observe(got.has_value()); verif_observe(got.has_value() ? (uint64_t)*got : 0);
    VASSERT(got.has_value() == ok, "ParseMoney accepts a digit string iff <= 10 whole digits, <= 8 decimals and value <= 21,000,000 coins");
    if (got.has_value() && ok) VASSERT((i128)*got == v, "parsed amount == whole * 1e8 + fraction");
#if W <= 10 && F <= 8 && SLEN > 0
    VWITNESS(got.has_value(), "accepted");
#if W == 8 && defined(PIN)
    VWITNESS(got.has_value() && *got == REF_MAX, "exactly 21,000,000 coins accepted");
    VWITNESS(!got.has_value(), "above 21,000,000 coins rejected");
#if F == 8
    VWITNESS(!got.has_value() && v == (i128)REF_MAX + 1, "MAX_MONEY + 1 satoshi rejected");
#endif
#endif
#else
    VWITNESS(!got.has_value(), "rejected");
#endif
    VREACH("end");
}
