// C48 kernel 2: VARINT (serialize.h WriteVarInt / ReadVarInt / GetSizeOfVarInt) over the real DataStream.
// Reference (format documentation in serialize.h): MSB base-128, all bytes but the last have bit 0x80 set, and the byte string
// a[0..len) denotes   (a[len-1] & 0x7F) + sum_{i=1..len-1} 128^i * ((a[len-1-i] & 0x7F) + 1).
// "Every integer has exactly one encoding"; a decoder for type I must reject strings denoting a value above max(I).
#include <verif.h>
#include <serialize.h>
#include <streams.h>
#include <span>
#include <limits>

void memory_cleanse(void* ptr, size_t len) {}

#ifndef ITYPE
#define ITYPE 0
#endif
#if ITYPE == 0
typedef uint64_t I; static const VarIntMode M = VarIntMode::DEFAULT;
#elif ITYPE == 1
typedef uint32_t I; static const VarIntMode M = VarIntMode::DEFAULT;
#elif ITYPE == 2
typedef int64_t I; static const VarIntMode M = VarIntMode::NONNEGATIVE_SIGNED;
#elif ITYPE == 3
typedef int32_t I; static const VarIntMode M = VarIntMode::NONNEGATIVE_SIGNED;
#else
typedef uint16_t I; static const VarIntMode M = VarIntMode::DEFAULT;
#endif
#define MAXB 10   /* ceil(64/7) */
typedef unsigned __int128 u128;
static const u128 IMAX = (u128)std::numeric_limits<I>::max();

// value denoted by a[0..len) according to the documented formula (len <= MAXB: fits in 128 bits)
static u128 ref_value(const uint8_t* a, int len)
{
    u128 v = 0, p = 1;
    for (int i = 0; i < MAXB; i++) {
        if (i < len) {
            const int idx = len - 1 - i;
            v += p * (u128)((a[idx] & 0x7F) + (i == 0 ? 0 : 1));
            p *= 128;
        }
    }
    return v;
}
// index of the first byte without continuation bit, or -1
static int ref_end(const uint8_t* a, int len)
{
    int e = -1;
    for (int i = MAXB - 1; i >= 0; i--) if (i < len && !(a[i] & 0x80)) e = i;
    return e;
}

extern "C" void h_varint_write_read()
{
    const I n = (I)nondet_u64();
    VASSUME(n >= 0);   // NONNEGATIVE_SIGNED mode is specified for non-negative values only
    DataStream ds;
    WriteVarInt<DataStream, M, I>(ds, n);
    const int len = (int)ds.size();
    VASSERT(len >= 1 && len <= MAXB, "encoding has 1..10 bytes");
    const unsigned gs = GetSizeOfVarInt<M, I>(n);
    VASSERT((unsigned)len == gs, "GetSizeOfVarInt equals the number of bytes written");
    uint8_t a[MAXB];
    for (int i = 0; i < MAXB; i++) a[i] = (i < len) ? (uint8_t)ds[i] : 0;
    VASSERT(ref_end(a, len) == len - 1, "exactly the last byte has the continuation bit clear");
    VASSERT(ref_value(a, len) == (u128)n, "written bytes denote n under the documented formula");
    bool threw = false; I back = 0;
    try { back = ReadVarInt<DataStream, M, I>(ds); } catch (const std::ios_base::failure&) { threw = true; }
    verif_observe(threw); verif_observe((uint64_t)back); verif_observe(len);
    VASSERT(!threw, "a written VARINT is readable");
    VASSERT(back == n, "ReadVarInt(WriteVarInt(n)) == n");
    VASSERT(ds.empty(), "exactly the encoding is consumed");
    VWITNESS(len == 1, "1-byte encoding");
    VWITNESS(len == 2 && n == 128, "128 encodes in 2 bytes");
    VWITNESS(len == 3, "3-byte encoding");
    VWITNESS((u128)n == IMAX, "maximum of the type round-trips");
    VREACH("end");
}

#ifndef LEN
#define LEN 10
#endif
// every byte string of length LEN: accepted <=> terminated within LEN bytes and denoted value <= max(I)
extern "C" void h_varint_read_all()
{
    uint8_t b[LEN + 1];
    for (int i = 0; i < LEN; i++) b[i] = nondet_u8();
    const int e = ref_end(b, LEN);
    const u128 val = e >= 0 ? ref_value(b, e + 1) : 0;
    const bool ok = e >= 0 && val <= IMAX;
    DataStream ds{std::span<const uint8_t>(b, (size_t)LEN)};
    bool threw = false; I got = 0;
    try { got = ReadVarInt<DataStream, M, I>(ds); } catch (const std::ios_base::failure&) { threw = true; }
    verif_observe(threw); verif_observe((uint64_t)got);
    VASSERT(threw == !ok, "ReadVarInt accepts exactly the terminated strings denoting a value of the target type");
    if (!threw) {
        VASSERT((u128)got == val && got >= 0, "decoded value equals the documented formula");
        VASSERT(ds.size() == (size_t)(LEN - (e + 1)), "consumed exactly up to the first byte without continuation bit");
    }
#if LEN >= 1
    VWITNESS(!threw, "some string accepted");
    VWITNESS(threw, "some string rejected");
#endif
#if ((ITYPE == 0 || ITYPE == 2) && LEN >= 10) || ((ITYPE == 1 || ITYPE == 3) && LEN >= 5)
    VWITNESS(!threw && (u128)got == IMAX, "maximum value decodable");
    VWITNESS(threw && e >= 0 && val == IMAX + 1, "maximum+1 rejected");
#endif
    VREACH("end");
}
