// C48 kernel 3: hex text codec. Real code: HexStr (crypto/hex_base.cpp), TryParseHex / ParseHex / IsHex (util/strencodings.{h,cpp}).
// Reference: a byte is written as two lowercase digits, high nibble first. The parser accepts upper and lower case digits, ignores
// whitespace (space \t \n \v \f \r) between bytes (not between the two digits of a byte) and rejects everything else.
#include <verif.h>
#include <util/strencodings.h>
#include <crypto/hex_base.h>
#include <string_view>
#include <span>

static const char DIG[] = "0123456789abcdef";
static int ref_nibble(char c)
{
    if (c >= '0' && c <= '9') return c - '0';
    if (c >= 'a' && c <= 'f') return c - 'a' + 10;
    if (c >= 'A' && c <= 'F') return c - 'A' + 10;
    return -1;
}
static bool ref_space(char c) { return c == ' ' || c == '\t' || c == '\n' || c == '\v' || c == '\f' || c == '\r'; }

#ifndef NB
#define NB 3
#endif
// bytes -> text -> bytes
extern "C" void h_hex_roundtrip()
{
    uint8_t b[NB + 1];
    for (int i = 0; i < NB; i++) b[i] = nondet_u8();
    const std::string s = HexStr(std::span<const uint8_t>(b, (size_t)NB));
    VASSERT(s.size() == 2 * NB, "HexStr emits two characters per byte");
    bool same = s.size() == 2 * NB;
    for (int i = 0; i < NB && same; i++) same = s[2 * i] == DIG[b[i] >> 4] && s[2 * i + 1] == DIG[b[i] & 15];
    VASSERT(same, "HexStr emits lowercase digits, high nibble first");
    VASSERT(IsHex(s) == (NB > 0), "HexStr output of a non-empty string is recognised by IsHex");
    const auto back = TryParseHex<uint8_t>(s);
    VASSERT(back.has_value(), "HexStr output parses");
    bool eq = back.has_value() && back->size() == (size_t)NB;
    for (int i = 0; i < NB && eq; i++) eq = (*back)[i] == b[i];
    VASSERT(eq, "TryParseHex(HexStr(b)) == b");
    verif_observe(same); verif_observe(eq);
#if NB > 0
    VWITNESS(s[0] == 'f' && s[1] == '0', "0xf0 prints as f0");
#endif
    VREACH("end");
}

#ifndef NC
#define NC 4
#endif
// every character string of length NC (all 256 values per character, NUL included)
extern "C" void h_hex_parse_all()
{
    char c[NC + 1];
    for (int i = 0; i < NC; i++) c[i] = (char)nondet_u8();
    c[NC] = 0;
    const std::string_view sv(c, (size_t)NC);
    // reference parse
    uint8_t out[NC / 2 + 1]; int n = 0; bool ok = true; bool sawspace = false;
    {
        int i = 0;
        for (int step = 0; step < NC + 1; step++) {     // at most NC steps; concrete trip count for the model checker
            if (i >= NC || !ok) continue;
            if (ref_space(c[i])) { i++; sawspace = true; continue; }
            if (i + 1 >= NC) { ok = false; continue; }
            const int hi = ref_nibble(c[i]), lo = ref_nibble(c[i + 1]);
            if (hi < 0 || lo < 0) { ok = false; continue; }
            out[n++] = (uint8_t)(hi * 16 + lo); i += 2;
        }
    }
    bool allhex = true;
    for (int i = 0; i < NC; i++) allhex = allhex && ref_nibble(c[i]) >= 0;
    const bool ref_ishex = NC > 0 && NC % 2 == 0 && allhex;

    const auto got = TryParseHex<uint8_t>(sv);
    verif_observe(got.has_value());
    VASSERT(got.has_value() == ok, "TryParseHex accepts exactly: whitespace-separated pairs of hex digits");
    if (got.has_value()) {
        bool eq = got->size() == (size_t)n;
        for (int i = 0; i < NC / 2; i++) if (i < n && eq) eq = (*got)[i] == out[i];
        VASSERT(eq, "parsed bytes equal the reference");
        if (!sawspace) {
            // canonical re-encoding: equals the input up to letter case
            bool canon = n * 2 == NC;
            for (int i = 0; i < NC / 2; i++) if (i < n && canon) {
                const char a0 = c[2 * i], a1 = c[2 * i + 1];
                canon = DIG[out[i] >> 4] == ((a0 >= 'A' && a0 <= 'F') ? a0 + 32 : a0) && DIG[out[i] & 15] == ((a1 >= 'A' && a1 <= 'F') ? a1 + 32 : a1);
            }
            VASSERT(canon, "accepted whitespace-free input re-encodes to its lowercase form");
        }
    }
    const bool ih = IsHex(sv);
    verif_observe(ih);
    VASSERT(ih == ref_ishex, "IsHex: non-empty, even length, only hex digits");
    VASSERT(!ih || (got.has_value() && got->size() == (size_t)(NC / 2)), "IsHex strings parse to length/2 bytes");
    // ParseHex: same bytes, empty vector on invalid input
    const std::vector<uint8_t> ph = ParseHex<uint8_t>(sv);
    VASSERT(ph.size() == (size_t)(ok ? n : 0), "ParseHex returns the bytes, or an empty vector for invalid input");
#if NC >= 2
    VWITNESS(got.has_value() && n == NC / 2, "some full-length string accepted");
    VWITNESS(!got.has_value(), "some string rejected");
    VWITNESS(got.has_value() && c[0] == 'A' && c[1] == 'f' && out[0] == 0xaf, "mixed case accepted");
#endif
#if NC >= 3
    VWITNESS(got.has_value() && sawspace && n == 1, "whitespace between bytes ignored");
    VWITNESS(!got.has_value() && ref_nibble(c[0]) >= 0 && ref_space(c[1]) && ref_nibble(c[2]) >= 0, "whitespace inside a byte rejected");
#endif
    VREACH("end");
}
