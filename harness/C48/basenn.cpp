// C48 kernel 4: base64 / base32 text codecs. Real code: EncodeBase64 / DecodeBase64 / EncodeBase32 / DecodeBase32 (util/strencodings.cpp)
// and the ConvertBits<8,6>/<6,8>/<8,5>/<5,8> template (util/strencodings.h).
// Reference: RFC 4648 sections 4 (base64) and 6 (base32, lower-case alphabet as used for onion/i2p addresses; the decoder is
// case-insensitive). The decoders are strict: length a multiple of 4 / 8, '=' only as the RFC's final-group padding (2 or 1 / 6,4,3,1
// characters), no characters outside the alphabet (no whitespace), unused trailing bits zero.
#include <verif.h>
#include <util/strencodings.h>
#include <string_view>
#include <span>

static int v64(char c)
{
    if (c >= 'A' && c <= 'Z') return c - 'A';
    if (c >= 'a' && c <= 'z') return c - 'a' + 26;
    if (c >= '0' && c <= '9') return c - '0' + 52;
    if (c == '+') return 62;
    if (c == '/') return 63;
    return -1;
}
static char c64(int v) { return v < 26 ? 'A' + v : v < 52 ? 'a' + (v - 26) : v < 62 ? '0' + (v - 52) : v == 62 ? '+' : '/'; }
static int v32(char c)
{
    if (c >= 'a' && c <= 'z') return c - 'a';
    if (c >= 'A' && c <= 'Z') return c - 'A';
    if (c >= '2' && c <= '7') return c - '2' + 26;
    return -1;
}
static char c32(int v) { return v < 26 ? 'a' + v : '2' + (v - 26); }
static char lower(char c) { return (c >= 'A' && c <= 'Z') ? c + 32 : c; }

#ifndef NB
#define NB 3
#endif
#ifndef NC
#define NC 4
#endif

// ---- reference encoders (whole-group arithmetic, not a bit accumulator) ----
// base64: each 3-byte group is a 24-bit number written as 4 digits; a final group of 1 (2) bytes is zero-extended and written as 2 (3) digits + "==" ("=")
template <int LEN> static int ref_enc64(const uint8_t* b, char* out)
{
    int o = 0;
    for (int g = 0; g * 3 < LEN; g++) {
        const int k = LEN - 3 * g >= 3 ? 3 : LEN - 3 * g;
        uint32_t w = 0;
        for (int j = 0; j < 3; j++) w = (w << 8) | (j < k ? b[3 * g + j] : 0);
        const int digits = k + 1;
        for (int j = 0; j < 4; j++) out[o++] = j < digits ? c64((w >> (18 - 6 * j)) & 63) : '=';
    }
    return o;
}
// base32: each 5-byte group is a 40-bit number written as 8 digits; final group of 1,2,3,4 bytes -> 2,4,5,7 digits + padding
template <int LEN> static int ref_enc32(const uint8_t* b, char* out, bool pad)
{
    static const int DIGITS[6] = {0, 2, 4, 5, 7, 8};
    int o = 0;
    for (int g = 0; g * 5 < LEN; g++) {
        const int k = LEN - 5 * g >= 5 ? 5 : LEN - 5 * g;
        uint64_t w = 0;
        for (int j = 0; j < 5; j++) w = (w << 8) | (j < k ? b[5 * g + j] : 0);
        for (int j = 0; j < 8; j++) { if (j < DIGITS[k]) out[o++] = c32((int)((w >> (35 - 5 * j)) & 31)); else if (pad) out[o++] = '='; }
    }
    return o;
}

static bool str_eq(const std::string& s, const char* ref, int n)
{
    if (s.size() != (size_t)n) return false;
    bool same = true;
    for (int i = 0; i < n; i++) same = same && s[i] == ref[i];
    return same;
}
static bool vec_eq(const std::optional<std::vector<unsigned char>>& v, const uint8_t* ref, int n)
{
    if (!v.has_value() || v->size() != (size_t)n) return false;
    bool same = true;
    for (int i = 0; i < n; i++) same = same && (*v)[i] == ref[i];
    return same;
}

extern "C" void h_b64_roundtrip()
{
    uint8_t b[NB + 1];
    for (int i = 0; i < NB; i++) b[i] = nondet_u8();
    char ref[4 * ((NB + 2) / 3) + 1];
    const int rl = ref_enc64<NB>(b, ref);
    const std::string s = EncodeBase64(std::span<const unsigned char>(b, (size_t)NB));
    const bool enc_ok = str_eq(s, ref, rl);
    VASSERT(enc_ok, "EncodeBase64 equals the RFC 4648 reference encoding");
    const auto back = DecodeBase64(s);
    const bool dec_ok = vec_eq(back, b, NB);
    VASSERT(dec_ok, "DecodeBase64(EncodeBase64(b)) == b");
    verif_observe(enc_ok); verif_observe(dec_ok);
#if NB % 3 == 1
    VWITNESS(s.size() >= 2 && s[s.size() - 1] == '=' && s[s.size() - 2] == '=', "two padding characters");
#endif
#if NB >= 1
    VWITNESS(s[0] == '/' , "digit 63 reachable");
#endif
    VREACH("end");
}

extern "C" void h_b32_roundtrip()
{
    uint8_t b[NB + 1];
    for (int i = 0; i < NB; i++) b[i] = nondet_u8();
    char ref[8 * ((NB + 4) / 5) + 1];
#ifdef NOPAD
    const bool pad = false;
#else
    const bool pad = true;
#endif
    const int rl = ref_enc32<NB>(b, ref, pad);
    const std::string s = EncodeBase32(std::span<const unsigned char>(b, (size_t)NB), pad);
    const bool enc_ok = str_eq(s, ref, rl);
    VASSERT(enc_ok, "EncodeBase32 equals the RFC 4648 reference encoding (lower case)");
    verif_observe(enc_ok);
#ifndef NOPAD
    const auto back = DecodeBase32(s);
    const bool dec_ok = vec_eq(back, b, NB);
    VASSERT(dec_ok, "DecodeBase32(EncodeBase32(b)) == b");
    verif_observe(dec_ok);
#else
    VASSERT(s.size() == (size_t)((NB * 8 + 4) / 5), "unpadded length is ceil(8n/5)");
#endif
#if NB >= 1
    VWITNESS(s[0] == '7', "digit 31 reachable");
#endif
    VREACH("end");
}

// ---- all strings of NC characters (every character takes all 256 values) ----
extern "C" void h_b64_decode_all()
{
    char c[NC + 1];
    for (int i = 0; i < NC; i++) c[i] = (char)nondet_u8();
    c[NC] = 0;
    // structural reference decoder
    uint8_t out[3 * (NC / 4) + 1]; int n = 0; bool ok = NC % 4 == 0;
    for (int q = 0; q < NC / 4; q++) {
        const char* g = c + 4 * q; const bool last = q == NC / 4 - 1;
        const int a0 = v64(g[0]), a1 = v64(g[1]), a2 = v64(g[2]), a3 = v64(g[3]);
        if (a0 < 0 || a1 < 0) { ok = false; continue; }
        if (last && g[2] == '=' && g[3] == '=') { if (a1 & 15) ok = false; out[n++] = (uint8_t)((a0 << 2) | (a1 >> 4)); continue; }
        if (a2 < 0) { ok = false; continue; }
        if (last && g[3] == '=') { if (a2 & 3) ok = false; out[n++] = (uint8_t)((a0 << 2) | (a1 >> 4)); out[n++] = (uint8_t)((a1 << 4) | (a2 >> 2)); continue; }
        if (a3 < 0) { ok = false; continue; }
        out[n++] = (uint8_t)((a0 << 2) | (a1 >> 4)); out[n++] = (uint8_t)((a1 << 4) | (a2 >> 2)); out[n++] = (uint8_t)((a2 << 6) | a3);
    }
    const auto got = DecodeBase64(std::string_view(c, (size_t)NC));
    verif_observe(got.has_value());
    VASSERT(got.has_value() == ok, "DecodeBase64 accepts exactly the RFC 4648 strings (canonical padding bits, no foreign characters)");
    if (got.has_value()) {
        VASSERT(vec_eq(got, out, n), "decoded bytes equal the reference");
        // accepted => canonical: the reference encoding of the result is the input itself
        char re[NC + 4]; int rl = 0; bool canon = true;
#if NC >= 4
        const int full = (NC / 4 - 1) * 3;       // bytes from the non-final groups
        rl = ref_enc64<(NC / 4 - 1) * 3>(out, re);
        const int tail = n - full;                // 1..3 bytes in the final group
        char t[5]; int tl = 0;
        if (tail == 1) tl = ref_enc64<1>(out + full, t); else if (tail == 2) tl = ref_enc64<2>(out + full, t); else tl = ref_enc64<3>(out + full, t);
        canon = tail >= 1 && tail <= 3 && tl == 4;
        for (int i = 0; i < 4; i++) re[rl + i] = t[i];
        rl += 4;
        for (int i = 0; i < NC; i++) canon = canon && re[i] == c[i];
#endif
        VASSERT(canon && rl == NC, "an accepted string is the canonical encoding of its value");
    }
#if NC >= 4 && NC % 4 == 0
    VWITNESS(got.has_value() && n == 3 * (NC / 4), "unpadded string accepted");
    VWITNESS(got.has_value() && n == 3 * (NC / 4) - 2, "xx== accepted");
    VWITNESS(got.has_value() && n == 3 * (NC / 4) - 1, "xxx= accepted");
    VWITNESS(!got.has_value() && c[NC - 1] == '=' && c[NC - 2] == '=' && v64(c[NC - 3]) > 0 && v64(c[NC - 4]) >= 0, "non-zero padding bits rejected");
    VWITNESS(!got.has_value() && c[NC - 1] == '=' && c[NC - 2] == '=' && c[NC - 3] == '=', "three padding characters rejected");
#endif
    VREACH("end");
}

extern "C" void h_b32_decode_all()
{
    char c[NC + 1];
    for (int i = 0; i < NC; i++) c[i] = (char)nondet_u8();
    c[NC] = 0;
    uint8_t out[5 * (NC / 8) + 1]; int n = 0; bool ok = NC % 8 == 0;
    int lastbytes = 5;
    for (int q = 0; q < NC / 8; q++) {
        const char* g = c + 8 * q; const bool last = q == NC / 8 - 1;
        // number of data digits in this group: 8, or (final group only) 7,5,4,2 followed by '=' only
        int k = 8;
        if (last) { int p = 0; for (int j = 7; j >= 0; j--) { if (g[j] == '=' && p == 7 - j) p++; } k = 8 - p; }
        const int bytes = k == 8 ? 5 : k == 7 ? 4 : k == 5 ? 3 : k == 4 ? 2 : k == 2 ? 1 : -1;
        if (bytes < 0) { ok = false; continue; }
        uint64_t w = 0; bool good = true;
        for (int j = 0; j < 8; j++) { const int v = j < k ? v32(g[j]) : 0; if (v < 0) good = false; w = (w << 5) | (uint64_t)(v < 0 ? 0 : v); }
        if (!good) { ok = false; continue; }
        if (w & ((1ULL << (40 - 8 * bytes)) - 1)) { ok = false; continue; }   // unused bits must be zero
        for (int j = 0; j < 5; j++) if (j < bytes) out[n++] = (uint8_t)(w >> (32 - 8 * j));
        if (last) lastbytes = bytes;
    }
    const auto got = DecodeBase32(std::string_view(c, (size_t)NC));
    verif_observe(got.has_value());
    VASSERT(got.has_value() == ok, "DecodeBase32 accepts exactly the RFC 4648 strings (either letter case, canonical padding)");
    if (got.has_value()) {
        VASSERT(vec_eq(got, out, n), "decoded bytes equal the reference");
        bool canon = true;
#if NC >= 8
        char re[NC + 8]; int rl = ref_enc32<(NC / 8 - 1) * 5>(out, re, true);
        const int full = (NC / 8 - 1) * 5; const int tail = n - full;
        char t[9]; int tl = 0;
        if (tail == 1) tl = ref_enc32<1>(out + full, t, true); else if (tail == 2) tl = ref_enc32<2>(out + full, t, true); else if (tail == 3) tl = ref_enc32<3>(out + full, t, true);
        else if (tail == 4) tl = ref_enc32<4>(out + full, t, true); else tl = ref_enc32<5>(out + full, t, true);
        canon = tail >= 1 && tail <= 5 && tl == 8;
        for (int i = 0; i < 8; i++) re[rl + i] = t[i];
        for (int i = 0; i < NC; i++) canon = canon && re[i] == lower(c[i]);
#endif
        VASSERT(canon, "an accepted string is, up to letter case, the canonical encoding of its value");
    }
#if NC >= 8 && NC % 8 == 0
    VWITNESS(got.has_value() && lastbytes == 5, "unpadded group accepted");
    VWITNESS(got.has_value() && lastbytes == 4, "7 digits + = accepted");
    VWITNESS(got.has_value() && lastbytes == 3, "5 digits + === accepted");
    VWITNESS(got.has_value() && lastbytes == 2, "4 digits + ==== accepted");
    VWITNESS(got.has_value() && lastbytes == 1, "2 digits + ====== accepted");
    VWITNESS(!got.has_value() && c[NC - 1] == '=' && c[NC - 2] == '=' && v32(c[NC - 3]) >= 0, "two padding characters rejected");
    VWITNESS(got.has_value() && c[0] == 'A' && c[1] == 'a', "mixed case accepted");
#endif
    VREACH("end");
}
