from vlib import H
PROPERTY = 'C48'
LEVEL = 'model_checking'
CLAIM = ('Real serialization and text-codec code of Bitcoin Core executed symbolically against references written from the format documents: '
         '(1) CompactSize: WriteCompactSize bytes == reference for all 2^64 values, ReadCompactSize(Write(n)) == n, and on ALL byte strings of every truncation class up to the full 9 bytes '
         'ReadCompactSize accepts exactly the complete, shortest-form, in-range (MAX_SIZE under range_check) encodings; '
         '(2) VARINT (both modes, 32/64 bit): written bytes denote n under the documented formula, read(write(n)) == n for all n, and on all byte strings of the maximal length the reader accepts exactly '
         'the terminated strings whose value fits the type; '
         '(3) transactions: SerializeTransaction (TX_WITH_WITNESS / TX_NO_WITNESS) over DataStream equals an independent BIP144 serializer byte for byte, GetSerializeSize agrees, '
         'UnserializeTransaction returns the original object field by field, txid/wtxid are double hashes of exactly the basic/extended serialization (recording hash model), superfluous-witness, '
         'unknown-flag and truncated streams are rejected; '
         '(4) hex / base64 / base32: encoders equal RFC 4648 / lowercase-hex references and decode(encode(b)) == b for all byte strings of the stated lengths; on ALL character strings of the stated lengths the '
         'decoders accept exactly the well-formed strings and an accepted string is the canonical encoding of its value; '
         '(5) ParseMoney on all character strings of <= 3 characters and on digit-shaped strings equals the reference grammar/value, incl. the 21,000,000-coin boundary probes. '
         'Not covered: blocks/headers/P2P payload classes, FormatMoney (tinyformat), integer-string parsers, base58 (see C45), non-canonical CompactSize inside a transaction stream (covered at kernel level only).')
TPH = '_Z11TryParseHexIhESt8optionalISt6vectorIT_SaIS2_EEESt17basic_string_viewIcSt11char_traitsIcEE'
# every heap allocation in these harnesses is asserted to be <= 32 bytes (rt.c VERIF_ALLOC_MAX), which removes the large size classes from infeasible vector-reallocation paths
SMALL = ['-D', 'VERIF_ALLOC_MAX=32']
D64 = '_Z12DecodeBase64St17basic_string_viewIcSt11char_traitsIcEE'
D32 = '_Z12DecodeBase32St17basic_string_viewIcSt11char_traitsIcEE'
def dec_unwind(fn, nchars):   # ConvertBits loop over a string whose end pointer is symbolic after '=' stripping: bound = characters + 2
    return lambda v: '%s.0:%d,%s.1:%d' % (fn, nchars(v) + 2, fn, nchars(v) + 2)
def tph_unwind(nchars):       # TryParseHex loop: the iterator is symbolic after the first whitespace/digit split
    return lambda v: '%s.0:%d,%s.1:%d' % (TPH, nchars(v) + 2, TPH, nchars(v) + 2)
CLEANSE = ['memory_cleanse (zeroing on free, support/cleanse.cpp) is a no-op']
MONEY_FN = ['ParseMoney', 'util::TrimString', 'util::ContainsNoNUL', 'LocaleIndependentAtoi<int64_t>', 'std::from_chars (libstdc++ header)', 'MoneyRange']
MONEY_ST = ['tinyformat.h shadowed (ref/nofmt): FormatMoney is not executed']
TXLINK = ['primitives/transaction.cpp', 'script/script.cpp', 'uint256.cpp', 'hash.cpp']
TXFN = ['SerializeTransaction', 'UnserializeTransaction', 'CTxIn/CTxOut/COutPoint SERIALIZE_METHODS', 'VectorFormatter / prevector / vector<unsigned char> Serialize+Unserialize', 'WriteCompactSize/ReadCompactSize', 'DataStream', 'GetSerializeSize']
TXST = ['CSHA256 replaced by a recording model (digest = sequence number of the hashed message; messages logged)'] + CLEANSE
def txs(nin, nout, wmask=0, **kw):
    d = {'NIN': nin, 'NOUT': nout, 'WMASK': wmask}; d.update(kw); return d
TXQ = [txs(1, 1), txs(1, 1, 1), txs(2, 2, 2), txs(0, 0)]
TXT = TXQ + [txs(2, 1, 3), txs(1, 2, 1, SSLEN=0, PKLEN=0, WLEN=0), txs(2, 2), txs(3, 3, 5, WITEMS=2), txs(3, 1, 7, SSLEN=3, PKLEN=3, WLEN=3)]
TXBAD = [txs(1, 1, 0, KIND=2), txs(1, 1, 1, KIND=6, CUT=1), txs(1, 1, 0, KIND=6, CUT=4)]
TXBAD_T = TXBAD + [txs(2, 1, 0, KIND=2), txs(1, 1, 1, KIND=6, CUT=9), txs(2, 2, 2, KIND=6, CUT=1)]
TXFLAG = [txs(1, 1, 1, KIND=1, FLAG=f) for f in (0, 2, 3)]
TXFLAG_T = [txs(1, 1, 1, KIND=1, FLAG=f) for f in (0, 1, 2, 3, 4, 128, 129, 255)] + [txs(2, 1, 2, KIND=1, FLAG=3)]
SE = ['util/strencodings.cpp', 'crypto/hex_base.cpp']
K = dict(objbits=10, diff_runs=16)
HARNESSES = [
    H('cs_write_read', 'compact.cpp', 'h_cs_write_read', unwind=12, timeout=120, stubs=CLEANSE,
      functions=['WriteCompactSize<DataStream>', 'ReadCompactSize<DataStream>', 'GetSizeOfCompactSize', 'DataStream::read/write (streams.h)', 'ser_writedata*/ser_readdata* (serialize.h)'],
      bounds='all 2^64 values in one query; range_check symbolic', **K),
    H('cs_read_all', 'compact.cpp', 'h_cs_read_all', variants=[{'LEN': l} for l in (1, 3, 5, 9)], tvariants=[{'LEN': l} for l in range(0, 10)], unwind=12, timeout=120,
      functions=['ReadCompactSize<DataStream>'], stubs=CLEANSE,
      bounds='all byte strings of length 1,3,5,9 (thorough: every length 0..9): every truncation class and the full 9-byte domain; range_check symbolic', **K),
    H('varint_write_read', 'varint.cpp', 'h_varint_write_read', variants=[{'ITYPE': t} for t in range(4)], unwind=12, timeout=120,
      functions=['WriteVarInt<DataStream,Mode,I>', 'ReadVarInt<DataStream,Mode,I>', 'GetSizeOfVarInt<Mode,I>'], stubs=CLEANSE,
      bounds='all values of uint64_t, uint32_t (DEFAULT) and all non-negative int64_t, int32_t (NONNEGATIVE_SIGNED)', **K),
    H('varint_read_all', 'varint.cpp', 'h_varint_read_all', variants=[{'ITYPE': 0, 'LEN': 10}, {'ITYPE': 1, 'LEN': 6}, {'ITYPE': 2, 'LEN': 10}, {'ITYPE': 3, 'LEN': 6}],
      tvariants=[{'ITYPE': t, 'LEN': l} for t in range(4) for l in (0, 1, 3, 5, 6, 9, 10)],
      unwind=12, timeout=120, functions=['ReadVarInt<DataStream,Mode,I>'], stubs=CLEANSE,
      bounds='all byte strings of length 10 (64-bit types; longest possible encoding) and 6 (32-bit types; one more than the longest encoding); thorough: lengths 0,1,3,5,6,9,10 for each type', **K),
    H('hex_roundtrip', 'hex.cpp', 'h_hex_roundtrip', link=SE, variants=[{'NB': n} for n in (1, 3)], tvariants=[{'NB': n} for n in (0, 1, 2, 3, 4, 6, 8)],
      unwind=18, unwindset=tph_unwind(lambda v: 2 * v['NB']), memunwind=10, cbmc=SMALL, timeout=120, functions=['HexStr (crypto/hex_base.cpp)', 'TryParseHex<uint8_t>', 'IsHex', 'HexDigit'],
      bounds='all byte strings of length 1,3 (thorough: 0..4,6,8)', **K),
    H('hex_parse_all', 'hex.cpp', 'h_hex_parse_all', link=SE, variants=[{'NC': l} for l in (2, 3, 4)], tvariants=[{'NC': l} for l in (0, 1, 2, 3, 4, 5, 6)],
      unwind=8, unwindset=tph_unwind(lambda v: v['NC']), memunwind=10, cbmc=SMALL, timeout=120, functions=['TryParseHex<uint8_t>', 'ParseHex<uint8_t>', 'IsHex', 'HexDigit', 'IsSpace'],
      bounds='all character strings (256 values per character) of length 2..4 (thorough: 0..6)', **K),
    H('b64_roundtrip', 'basenn.cpp', 'h_b64_roundtrip', link=SE, variants=[{'NB': n} for n in (1, 2, 3)], tvariants=[{'NB': n} for n in range(0, 10)],
      unwind=20, unwindset=dec_unwind(D64, lambda v: 4 * ((v['NB'] + 2) // 3)), memunwind=12, cbmc=SMALL, opt='-O2', timeout=120, functions=['EncodeBase64', 'DecodeBase64', 'ConvertBits<8,6,true>', 'ConvertBits<6,8,false>'],
      bounds='all byte strings of length 1..3 (thorough: 0..9)', **K),
    H('b64_decode_all', 'basenn.cpp', 'h_b64_decode_all', link=SE, variants=[{'NC': n} for n in (4, 8)], tvariants=[{'NC': n} for n in (0, 1, 2, 3, 4, 5, 8, 12)],
      unwind=20, unwindset=dec_unwind(D64, lambda v: v['NC']), memunwind=12, cbmc=SMALL, opt='-O2', timeout=120, functions=['DecodeBase64', 'ConvertBits<6,8,false>'],
      bounds='all character strings (256 values per character) of length 4,8 (thorough: also 0,1,2,3,5,12)', **K),
    H('b32_roundtrip', 'basenn.cpp', 'h_b32_roundtrip', link=SE, variants=[{'NB': n} for n in (2, 5)] + [{'NB': 4, 'NOPAD': 1}], tvariants=[{'NB': n} for n in range(0, 11)] + [{'NB': n, 'NOPAD': 1} for n in range(0, 11)],
      unwind=20, unwindset=dec_unwind(D32, lambda v: 8 * ((v['NB'] + 4) // 5)), memunwind=12, cbmc=SMALL, opt='-O2', timeout=120, functions=['EncodeBase32', 'DecodeBase32', 'ConvertBits<8,5,true>', 'ConvertBits<5,8,false>'],
      bounds='all byte strings of length 2,5 padded and 4 unpadded (thorough: 0..10 both)', **K),
    H('b32_decode_all', 'basenn.cpp', 'h_b32_decode_all', link=SE, variants=[{'NC': n} for n in (7, 8)], tvariants=[{'NC': n} for n in (0, 7, 8, 16)],
      unwind=20, unwindset=dec_unwind(D32, lambda v: v['NC']), memunwind=12, cbmc=SMALL, opt='-O2', timeout=120, functions=['DecodeBase32', 'ConvertBits<5,8,false>'],
      bounds='all character strings (256 values per character) of length 7,8 (thorough: also 0,16)', **K),
    H('money_parse_all', 'money.cpp', 'h_money_parse_all', link=['util/moneystr.cpp'], variants=[{'NC': n} for n in (2, 3)], tvariants=[{'NC': n} for n in (0, 1, 2, 3)],
      unwind=6, memunwind=8, cbmc=SMALL, opt='-O2', timeout=180, nofmt=True, functions=MONEY_FN, stubs=MONEY_ST,
      bounds='all character strings (256 values per character) of length 2..3 (thorough: 0..3)', **K),
    H('money_parse_all_t', 'money.cpp', 'h_money_parse_all', link=['util/moneystr.cpp'], variants=[{'NC': 4}], tier='thorough',
      unwind=8, memunwind=8, cbmc=SMALL, opt='-O2', timeout=1500, nofmt=True, functions=MONEY_FN, stubs=MONEY_ST,
      bounds='all character strings (256 values per character) of length 4', **K),
    H('money_digits_short', 'money.cpp', 'h_money_digits', link=['util/moneystr.cpp'], variants=[{'W': 1, 'F': 2}], tvariants=[{'W': 1, 'F': 2}, {'W': 0, 'F': 0, 'DOT': 1}, {'W': 3, 'F': 0}, {'W': 0, 'F': 3}],
      unwind=7, memunwind=8, cbmc=SMALL, opt='-O2', timeout=180, nofmt=True, functions=MONEY_FN, stubs=MONEY_ST,
      bounds='digit strings d.dd (thorough: also ".", ddd, .ddd), all digit values', **K),
    H('money_digits', 'money.cpp', 'h_money_digits', link=['util/moneystr.cpp'], variants=[{'W': 8, 'F': 8, 'PIN': 2100000, 'PINF': 1}],
      tvariants=[{'W': 8, 'F': 0, 'PIN': 2100000}, {'W': 8, 'F': 8, 'PIN': 2100000, 'PINF': 1}, {'W': 1, 'F': 9}, {'W': 11, 'F': 0, 'PIN': 1000000000}, {'W': 10, 'F': 0, 'PIN': 100000000}],
      unwind=20, memunwind=20, cbmc=SMALL, opt='-O2', timeout=240, nofmt=True, functions=MONEY_FN, stubs=MONEY_ST,
      bounds='boundary probes with ONE symbolic whole digit (and one symbolic last decimal): "2100000D.0000000E" (21,000,000 coins / MAX_MONEY+1 satoshi boundary) ; thorough: also "1000000000D" (11 whole digits), "2100000D", d.ddddddddd (9 decimals, all digits symbolic), 10 whole digits. Fully symbolic 8+8-digit strings did not finish.', **K),
    H('tx_roundtrip', 'tx.cpp', 'h_tx_roundtrip', link=TXLINK, variants=TXQ, tvariants=TXT, unwind=260, memunwind=260, timeout=300, objbits=11, diff_runs=16, fsarray=1100, functions=TXFN, stubs=TXST,
      bounds='shapes (nin, nout, witness mask): 1x1, 1x1+w, 2x2 (witness on input 1), 0x0; scripts 2 bytes, witness stack 1 item of 2 bytes (thorough: 2x1 (both witnesses), 1x2 with empty scripts and an empty witness item, 2x2, 3x3 with 2-item stacks, 3x1 with 3-byte scripts); all scalar fields and all script/witness/hash bytes symbolic',
      assumptions=['nin >= 1, or nin == nout == 0: a transaction without inputs but with outputs has no unambiguous TX_WITH_WITNESS encoding (documented marker ambiguity, BIP144)']),
    H('tx_ids', 'tx.cpp', 'h_tx_ids', link=TXLINK, variants=TXQ[1:3], tvariants=TXT, unwind=260, memunwind=260, timeout=300, objbits=11, diff_runs=16, fsarray=1100,
      functions=TXFN + ['CTransaction::ComputeHash', 'CTransaction::ComputeWitnessHash', 'CTransaction::ComputeHasWitness', 'HashWriter::write/GetHash'], stubs=TXST,
      bounds='shapes 1x1+w, 2x2+w (thorough: all round-trip shapes); digest values abstracted by the recording model'),
    H('tx_malformed', 'tx.cpp', 'h_tx_malformed', link=TXLINK, variants=TXBAD, tvariants=TXBAD_T, unwind=260, memunwind=260, timeout=300, objbits=11, diff_runs=16, fsarray=1100, functions=TXFN, stubs=TXST,
      bounds='streams built by the reference serializer for shape 1x1 with one structural defect each: extended form with only empty witness stacks (superfluous witness); truncation by 1 and 4 bytes (thorough: also 2x1, 9 bytes, 2x2); payload symbolic'),
    H('tx_flag', 'tx.cpp', 'h_tx_malformed', link=TXLINK, variants=TXFLAG, tvariants=TXFLAG_T, unwind=260, memunwind=260, timeout=300, objbits=11, diff_runs=16, fsarray=1100, functions=TXFN, stubs=TXST,
      bounds='extended-form 1x1 stream carrying a witness with flag byte 0, 2, 3 (thorough: 0,1,2,3,4,0x80,0x81,0xff and 2x1); flag concrete per query (a symbolic flag byte did not finish); payload symbolic'),
]
