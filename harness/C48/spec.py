from vlib import H
PROPERTY = 'C48'
LEVEL = 'model_checking'
CLAIM = ('wip')
TPH = '_Z11TryParseHexIhESt8optionalISt6vectorIT_SaIS2_EEESt17basic_string_viewIcSt11char_traitsIcEE'
# every heap allocation in these harnesses is asserted to be <= 32 bytes (rt.c VERIF_ALLOC_MAX), which removes the large size classes from infeasible vector-reallocation paths
SMALL = ['-D', 'VERIF_ALLOC_MAX=32']
D64 = '_Z12DecodeBase64St17basic_string_viewIcSt11char_traitsIcEE'
D32 = '_Z12DecodeBase32St17basic_string_viewIcSt11char_traitsIcEE'
def dec_unwind(fn, nchars):   # ConvertBits loop over a string whose end pointer is symbolic after '=' stripping: bound = characters + 2
    return lambda v: '%s.0:%d,%s.1:%d' % (fn, nchars(v) + 2, fn, nchars(v) + 2)
MONEY_FN = ['ParseMoney', 'util::TrimString', 'util::ContainsNoNUL', 'LocaleIndependentAtoi<int64_t>', 'std::from_chars (libstdc++ header)', 'MoneyRange']
TXLINK = ['primitives/transaction.cpp', 'script/script.cpp', 'uint256.cpp', 'hash.cpp']
TXFN = ['SerializeTransaction', 'UnserializeTransaction', 'CTxIn/CTxOut/COutPoint SERIALIZE_METHODS', 'VectorFormatter / prevector / vector<unsigned char> Serialize+Unserialize', 'WriteCompactSize/ReadCompactSize', 'DataStream', 'GetSerializeSize']
TXST = ['CSHA256 replaced by a recording model (digest = sequence number of the hashed message; messages logged)', 'memory_cleanse no-op']
def txs(nin, nout, wmask=0, **kw):
    d = {'NIN': nin, 'NOUT': nout, 'WMASK': wmask}; d.update(kw); return d
TXSHAPES = [txs(1, 1), txs(1, 1, 1), txs(2, 2, 2), txs(2, 1, 3), txs(2, 2), txs(1, 2, 1, SSLEN=0, PKLEN=0, WLEN=0), txs(0, 0)]
TXSHAPES_T = TXSHAPES + [txs(3, 3, 5, WITEMS=2), txs(3, 1, 7, SSLEN=3, PKLEN=3, WLEN=3), txs(1, 1, 1, SSLEN=253, PKLEN=1, WLEN=1)]
SE = ['util/strencodings.cpp', 'crypto/hex_base.cpp']
HARNESSES = [
    H('cs_write_read', 'compact.cpp', 'h_cs_write_read', unwind=12, timeout=120, objbits=10, diff_runs=16,
      functions=['WriteCompactSize<DataStream>', 'ReadCompactSize<DataStream>', 'GetSizeOfCompactSize', 'DataStream::read/write (streams.h)', 'ser_writedata*/ser_readdata* (serialize.h)'],
      stubs=['memory_cleanse (zeroing on free) is a no-op'],
      bounds='all 2^64 values in one query; range_check symbolic'),
    H('cs_read_all', 'compact.cpp', 'h_cs_read_all', variants=[{'LEN': l} for l in (0, 1, 2, 3, 4, 5, 8, 9)], unwind=12, timeout=120, objbits=10, diff_runs=16,
      functions=['ReadCompactSize<DataStream>'], stubs=['memory_cleanse (zeroing on free) is a no-op'],
      bounds='all byte strings of length 0,1,2,3,4,5,8,9 (every truncation class and the full 9-byte domain); range_check symbolic'),
    H('varint_write_read', 'varint.cpp', 'h_varint_write_read', variants=[{'ITYPE': t} for t in range(4)], unwind=12, timeout=120, objbits=10, diff_runs=16,
      functions=['WriteVarInt<DataStream,Mode,I>', 'ReadVarInt<DataStream,Mode,I>', 'GetSizeOfVarInt<Mode,I>'], stubs=['memory_cleanse (zeroing on free) is a no-op'],
      bounds='all values of uint64_t, uint32_t (DEFAULT) and all non-negative int64_t, int32_t (NONNEGATIVE_SIGNED)'),
    H('varint_read_all', 'varint.cpp', 'h_varint_read_all', variants=[{'ITYPE': 0, 'LEN': 10}, {'ITYPE': 1, 'LEN': 6}, {'ITYPE': 2, 'LEN': 10}, {'ITYPE': 3, 'LEN': 6}, {'ITYPE': 0, 'LEN': 3}, {'ITYPE': 0, 'LEN': 0}],
      unwind=12, timeout=120, objbits=10, diff_runs=16, functions=['ReadVarInt<DataStream,Mode,I>'], stubs=['memory_cleanse (zeroing on free) is a no-op'],
      bounds='all byte strings of length 10 (64-bit types; longest possible encoding), 6 (32-bit types; one more than the longest encoding), 3 and 0'),
    H('hex_roundtrip', 'hex.cpp', 'h_hex_roundtrip', link=['util/strencodings.cpp', 'crypto/hex_base.cpp'], variants=[{'NB': n} for n in (0, 1, 3)], tvariants=[{'NB': n} for n in (0, 1, 2, 3, 4, 6, 8)],
      unwind=18, unwindset=lambda v: '%s.0:%d,%s.1:%d' % (TPH, 2 * v['NB'] + 2, TPH, 2 * v['NB'] + 2), memunwind=10, cbmc=SMALL, timeout=120, objbits=10, diff_runs=16, functions=['HexStr (crypto/hex_base.cpp)', 'TryParseHex<uint8_t>', 'IsHex', 'HexDigit'],
      bounds='all byte strings of length 0,1,3 (thorough: up to 8)'),
    H('hex_parse_all', 'hex.cpp', 'h_hex_parse_all', link=['util/strencodings.cpp', 'crypto/hex_base.cpp'], variants=[{'NC': l} for l in (0, 1, 2, 3, 4)], tvariants=[{'NC': l} for l in (0, 1, 2, 3, 4, 5, 6)],
      unwind=8, unwindset=lambda v: '%s.0:%d,%s.1:%d' % (TPH, v['NC'] + 2, TPH, v['NC'] + 2), memunwind=10, cbmc=SMALL, diff_runs=16, timeout=120, objbits=10, functions=['TryParseHex<uint8_t>', 'ParseHex<uint8_t>', 'IsHex', 'HexDigit', 'IsSpace'],
      bounds='all character strings (256 values per character) of length 0..4 (thorough: 0..6)'),
    H('b64_roundtrip', 'basenn.cpp', 'h_b64_roundtrip', link=SE, variants=[{'NB': n} for n in (0, 1, 2, 3, 4)], tvariants=[{'NB': n} for n in range(0, 10)],
      unwind=20, unwindset=dec_unwind(D64, lambda v: 4 * ((v['NB'] + 2) // 3)), memunwind=12, cbmc=SMALL, opt='-O2', diff_runs=16, timeout=120, objbits=10, functions=['EncodeBase64', 'DecodeBase64', 'ConvertBits<8,6,true>', 'ConvertBits<6,8,false>'],
      bounds='all byte strings of length 0..4 (thorough: 0..9)'),
    H('b64_decode_all', 'basenn.cpp', 'h_b64_decode_all', link=SE, variants=[{'NC': n} for n in (0, 3, 4, 8)], tvariants=[{'NC': n} for n in (0, 1, 2, 3, 4, 5, 8, 12)],
      unwind=20, unwindset=dec_unwind(D64, lambda v: v['NC']), memunwind=12, cbmc=SMALL, opt='-O2', diff_runs=16, timeout=120, objbits=10, functions=['DecodeBase64', 'ConvertBits<6,8,false>'],
      bounds='all character strings (256 values per character) of length 0,3,4,8 (thorough: also 1,2,5,12)'),
    H('b32_roundtrip', 'basenn.cpp', 'h_b32_roundtrip', link=SE, variants=[{'NB': n} for n in (0, 1, 2, 3, 4, 5)] + [{'NB': n, 'NOPAD': 1} for n in (1, 4)], tvariants=[{'NB': n} for n in range(0, 11)] + [{'NB': n, 'NOPAD': 1} for n in range(0, 11)],
      unwind=20, unwindset=dec_unwind(D32, lambda v: 8 * ((v['NB'] + 4) // 5)), memunwind=12, cbmc=SMALL, opt='-O2', diff_runs=16, timeout=120, objbits=10, functions=['EncodeBase32', 'DecodeBase32', 'ConvertBits<8,5,true>', 'ConvertBits<5,8,false>'],
      bounds='all byte strings of length 0..5 padded, 1 and 4 unpadded (thorough: 0..10 both)'),
    H('b32_decode_all', 'basenn.cpp', 'h_b32_decode_all', link=SE, variants=[{'NC': n} for n in (0, 7, 8)], tvariants=[{'NC': n} for n in (0, 7, 8, 16)],
      unwind=20, unwindset=dec_unwind(D32, lambda v: v['NC']), memunwind=12, cbmc=SMALL, opt='-O2', diff_runs=16, timeout=120, objbits=10, functions=['DecodeBase32', 'ConvertBits<5,8,false>'],
      bounds='all character strings (256 values per character) of length 0,7,8 (thorough: also 16)'),
    H('money_parse_all', 'money.cpp', 'h_money_parse_all', link=['util/moneystr.cpp'], variants=[{'NC': n} for n in (0, 1, 2, 3)],
      unwind=6, memunwind=8, cbmc=SMALL, opt='-O2', diff_runs=16, timeout=180, objbits=10, nofmt=True, functions=MONEY_FN,
      bounds='all character strings (256 values per character) of length 0..3'),
    H('money_parse_all_t', 'money.cpp', 'h_money_parse_all', link=['util/moneystr.cpp'], variants=[{'NC': n} for n in (4, 5)], tier='thorough',
      unwind=8, memunwind=8, cbmc=SMALL, opt='-O2', diff_runs=16, timeout=900, objbits=10, nofmt=True, functions=MONEY_FN,
      bounds='all character strings (256 values per character) of length 4..5'),
    H('money_digits_short', 'money.cpp', 'h_money_digits', link=['util/moneystr.cpp'], variants=[{'W': 1, 'F': 2}, {'W': 0, 'F': 0, 'DOT': 1}, {'W': 3, 'F': 0}],
      unwind=7, memunwind=8, cbmc=SMALL, opt='-O2', diff_runs=16, timeout=180, objbits=10, nofmt=True, functions=MONEY_FN,
      bounds='digit strings d.dd, "." and ddd, all digit values'),
    H('money_digits', 'money.cpp', 'h_money_digits', link=['util/moneystr.cpp'], variants=[{'W': 8, 'F': 0, 'PIN': 2100000}, {'W': 8, 'F': 8, 'PIN': 2100000, 'PINF': 1}, {'W': 1, 'F': 9}, {'W': 11, 'F': 0, 'PIN': 1000000000}],
      unwind=20, memunwind=20, cbmc=SMALL, opt='-O2', diff_runs=16, timeout=180, objbits=10, nofmt=True, functions=MONEY_FN,
      bounds='digit strings of shape W whole digits . F decimals, all digit values: (8,8) covers every amount below 1e8 coins at satoshi precision incl. the 21,000,000 coin / MAX_MONEY+1 boundary; (2,9) and (11,0) the length limits (thorough: W in 0,1,7..11 x F in 0,2,8,9)'),
    H('tx_roundtrip', 'tx.cpp', 'h_tx_roundtrip', link=TXLINK, variants=TXSHAPES, tvariants=TXSHAPES_T,
      unwind=260, memunwind=260, timeout=300, objbits=11, diff_runs=16, cbmc=['--max-field-sensitivity-array-size', '1100'], functions=TXFN, stubs=TXST,
      bounds='shapes (nin, nout, witness mask, script lengths) listed in spec.py: nin,nout <= 2, scripts <= 2 bytes, witness stacks <= 1 item of 2 bytes (thorough: <= 3 inputs/outputs, 2 items, 3-byte scripts, 253-byte script => 3-byte compact size); all scalar fields and all script/witness/hash bytes symbolic',
      assumptions=['nin >= 1, or nin == nout == 0: a transaction without inputs but with outputs has no unambiguous TX_WITH_WITNESS encoding (documented marker ambiguity, BIP144)']),
    H('tx_ids', 'tx.cpp', 'h_tx_ids', link=TXLINK, variants=TXSHAPES[:4], tvariants=TXSHAPES,
      unwind=260, memunwind=260, timeout=300, objbits=11, diff_runs=16, cbmc=['--max-field-sensitivity-array-size', '1100'], functions=TXFN + ['CTransaction::ComputeHash', 'CTransaction::ComputeWitnessHash', 'HashWriter::write/GetHash'], stubs=TXST,
      bounds='same shapes; digest values abstracted by the recording model'),
]
