from vlib import H
PROPERTY = 'C48'
LEVEL = 'model_checking'
CLAIM = ('wip')
HARNESSES = [
    H('cs_write_read', 'compact.cpp', 'h_cs_write_read', unwind=12, timeout=120, objbits=10,
      functions=['WriteCompactSize<DataStream>', 'ReadCompactSize<DataStream>', 'GetSizeOfCompactSize', 'DataStream::read/write (streams.h)', 'ser_writedata*/ser_readdata* (serialize.h)'],
      stubs=['memory_cleanse (zeroing on free) is a no-op'],
      bounds='all 2^64 values in one query; range_check symbolic'),
    H('cs_read_all', 'compact.cpp', 'h_cs_read_all', variants=[{'LEN': l} for l in (0, 1, 2, 3, 4, 5, 8, 9)], unwind=12, timeout=120, objbits=10,
      functions=['ReadCompactSize<DataStream>'], stubs=['memory_cleanse (zeroing on free) is a no-op'],
      bounds='all byte strings of length 0,1,2,3,4,5,8,9 (every truncation class and the full 9-byte domain); range_check symbolic'),
    H('varint_write_read', 'varint.cpp', 'h_varint_write_read', variants=[{'ITYPE': t} for t in range(4)], unwind=12, timeout=120, objbits=10,
      functions=['WriteVarInt<DataStream,Mode,I>', 'ReadVarInt<DataStream,Mode,I>', 'GetSizeOfVarInt<Mode,I>'], stubs=['memory_cleanse (zeroing on free) is a no-op'],
      bounds='all values of uint64_t, uint32_t (DEFAULT) and all non-negative int64_t, int32_t (NONNEGATIVE_SIGNED)'),
    H('varint_read_all', 'varint.cpp', 'h_varint_read_all', variants=[{'ITYPE': 0, 'LEN': 10}, {'ITYPE': 1, 'LEN': 6}, {'ITYPE': 2, 'LEN': 10}, {'ITYPE': 3, 'LEN': 6}, {'ITYPE': 0, 'LEN': 3}, {'ITYPE': 0, 'LEN': 0}],
      unwind=12, timeout=120, objbits=10, functions=['ReadVarInt<DataStream,Mode,I>'], stubs=['memory_cleanse (zeroing on free) is a no-op'],
      bounds='all byte strings of length 10 (64-bit types; longest possible encoding), 6 (32-bit types; one more than the longest encoding), 3 and 0'),
    H('hex_roundtrip', 'hex.cpp', 'h_hex_roundtrip', link=['util/strencodings.cpp', 'crypto/hex_base.cpp'], variants=[{'N': n} for n in (0, 1, 3)], tvariants=[{'N': n} for n in (0, 1, 2, 3, 4, 6, 8)],
      unwind=20, timeout=120, objbits=10, functions=['HexStr (crypto/hex_base.cpp)', 'TryParseHex<uint8_t>', 'IsHex', 'HexDigit'],
      bounds='all byte strings of length 0,1,3 (thorough: up to 8)'),
    H('hex_parse_all', 'hex.cpp', 'h_hex_parse_all', link=['util/strencodings.cpp', 'crypto/hex_base.cpp'], variants=[{'L': l} for l in (0, 1, 2, 3, 4)], tvariants=[{'L': l} for l in (0, 1, 2, 3, 4, 5, 6)],
      unwind=20, timeout=120, objbits=10, functions=['TryParseHex<uint8_t>', 'ParseHex<uint8_t>', 'IsHex', 'HexDigit', 'IsSpace'],
      bounds='all character strings (256 values per character) of length 0..4 (thorough: 0..6)'),
]
