// C48 kernel 6: transaction (de)serialization. Real code: SerializeTransaction / UnserializeTransaction (primitives/transaction.h),
// CTxIn/CTxOut/COutPoint/CScript/prevector/vector formatters (serialize.h), DataStream (streams.h), CTransaction::ComputeHash /
// ComputeWitnessHash / HasWitness (primitives/transaction.cpp), HashWriter (hash.h).
// Reference: BIP144 / protocol documentation
//   basic   : nVersion(4 LE) | txin_count(cs) | txins | txout_count(cs) | txouts | nLockTime(4 LE)
//   extended: nVersion(4 LE) | 0x00 | 0x01 | txin_count | txins | txout_count | txouts | witness of every input | nLockTime
//   txin = prev hash(32) | index(4 LE) | script len(cs) | script | sequence(4 LE);  txout = value(8 LE) | script len(cs) | script
//   input witness = item count(cs) | { item len(cs) | item bytes }
//   the extended form is used iff some input has a non-empty witness; txid hashes the basic form, wtxid the extended form (BIP141).
#include <verif.h>
#include <primitives/transaction.h>
#include <streams.h>
#include <hash.h>
#include <crypto/sha256.h>
#include <string.h>

void memory_cleanse(void* ptr, size_t len) {}

#ifndef NIN
#define NIN 1
#endif
#ifndef NOUT
#define NOUT 1
#endif
#ifndef SSLEN      // scriptSig length of every input
#define SSLEN 2
#endif
#ifndef PKLEN      // scriptPubKey length of every output
#define PKLEN 2
#endif
#ifndef WMASK      // bit i set: input i has a witness stack of WITEMS items of WLEN bytes each
#define WMASK 0
#endif
#ifndef WITEMS
#define WITEMS 1
#endif
#ifndef WLEN
#define WLEN 2
#endif
#define MAXSER 256

// ---- recording model of CSHA256: a "digest" is the sequence number of the hashed message; messages are logged ----
static uint8_t g_msg[4][MAXSER]; static unsigned g_msglen[4]; static unsigned g_nmsg; static unsigned g_cur;
CSHA256::CSHA256() { bytes = 0; }
CSHA256& CSHA256::Write(const unsigned char* data, size_t len)
{
    __CPROVER_assert(g_nmsg < 4 && g_cur + len <= MAXSER, "hash recorder capacity");
    memcpy(&g_msg[g_nmsg][g_cur], data, len); g_cur += len; return *this;
}
CSHA256& CSHA256::Reset() { g_cur = 0; return *this; }
void CSHA256::Finalize(unsigned char hash[OUTPUT_SIZE])
{
    g_msglen[g_nmsg] = g_cur; g_nmsg++; g_cur = 0;
    memset(hash, 0, 32); hash[0] = (unsigned char)g_nmsg;   // label of message number g_nmsg (1-based); injective
}

// ---- harness-side description of the transaction ----
struct Desc {
    uint32_t version, locktime;
    uint8_t prevhash[NIN + 1][32]; uint32_t previdx[NIN + 1], seq[NIN + 1]; uint8_t ss[NIN + 1][SSLEN + 1];
    int64_t value[NOUT + 1]; uint8_t pk[NOUT + 1][PKLEN + 1];
    uint8_t wit[NIN + 1][WITEMS + 1][WLEN + 1];
};
static void draw(Desc& d)
{
    d.version = nondet_u32(); d.locktime = nondet_u32();
    for (int i = 0; i < NIN; i++) {
        for (int k = 0; k < 32; k++) d.prevhash[i][k] = nondet_u8();
        d.previdx[i] = nondet_u32(); d.seq[i] = nondet_u32();
        for (int k = 0; k < SSLEN; k++) d.ss[i][k] = nondet_u8();
        for (int j = 0; j < WITEMS; j++) for (int k = 0; k < WLEN; k++) d.wit[i][j][k] = nondet_u8();
    }
    for (int i = 0; i < NOUT; i++) { d.value[i] = nondet_i64(); for (int k = 0; k < PKLEN; k++) d.pk[i][k] = nondet_u8(); }
}
static void build(const Desc& d, CMutableTransaction& m)
{
    m.version = d.version; m.nLockTime = d.locktime;
    m.vin.resize(NIN); m.vout.resize(NOUT);
    for (int i = 0; i < NIN; i++) {
        uint256 h; memcpy(h.data(), d.prevhash[i], 32);
        m.vin[i].prevout.hash = Txid::FromUint256(h); m.vin[i].prevout.n = d.previdx[i]; m.vin[i].nSequence = d.seq[i];
        m.vin[i].scriptSig.resize(SSLEN);
        for (int k = 0; k < SSLEN; k++) m.vin[i].scriptSig[k] = d.ss[i][k];
        if ((WMASK >> i) & 1) {
            m.vin[i].scriptWitness.stack.resize(WITEMS);
            for (int j = 0; j < WITEMS; j++) { m.vin[i].scriptWitness.stack[j].resize(WLEN); for (int k = 0; k < WLEN; k++) m.vin[i].scriptWitness.stack[j][k] = d.wit[i][j][k]; }
        }
    }
    for (int i = 0; i < NOUT; i++) {
        m.vout[i].nValue = d.value[i]; m.vout[i].scriptPubKey.resize(PKLEN);
        for (int k = 0; k < PKLEN; k++) m.vout[i].scriptPubKey[k] = d.pk[i][k];
    }
}
// ---- independent reference serializer ----
struct W { uint8_t b[MAXSER]; int n = 0; };
static void put(W& w, uint8_t x) { w.b[w.n++] = x; }
static void le(W& w, uint64_t x, int bytes) { for (int i = 0; i < bytes; i++) put(w, (uint8_t)(x >> (8 * i))); }
static void cs(W& w, uint64_t n) { if (n < 0xFD) put(w, (uint8_t)n); else if (n <= 0xFFFF) { put(w, 0xFD); le(w, n, 2); } else if (n <= 0xFFFFFFFFULL) { put(w, 0xFE); le(w, n, 4); } else { put(w, 0xFF); le(w, n, 8); } }
// knobs used only by h_tx_malformed to build deliberately ill-formed streams
enum { D_NONE = 0, D_NONCANON_VIN, D_NONCANON_SCRIPT, D_HUGE_VOUT };   // deliberate defects (h_tx_malformed only)
static void ref_ser(const Desc& d, W& w, bool extended, int flag = 1, int defect = D_NONE)
{
    le(w, d.version, 4);
    if (extended) { put(w, 0x00); put(w, (uint8_t)flag); }
    if (defect == D_NONCANON_VIN) { put(w, 0xFD); le(w, NIN, 2); } else
    cs(w, NIN);
    for (int i = 0; i < NIN; i++) { for (int k = 0; k < 32; k++) put(w, d.prevhash[i][k]); le(w, d.previdx[i], 4); if (defect == D_NONCANON_SCRIPT && i == 0) { put(w, 0xFD); le(w, SSLEN, 2); } else cs(w, SSLEN); for (int k = 0; k < SSLEN; k++) put(w, d.ss[i][k]); le(w, d.seq[i], 4); }
    if (defect == D_HUGE_VOUT) { put(w, 0xFE); le(w, 0x02000001ULL, 4); } else
    cs(w, NOUT);
    for (int i = 0; i < NOUT; i++) { le(w, (uint64_t)d.value[i], 8); cs(w, PKLEN); for (int k = 0; k < PKLEN; k++) put(w, d.pk[i][k]); }
    if (extended) for (int i = 0; i < NIN; i++) {
        const bool has = (WMASK >> i) & 1;
        cs(w, has ? WITEMS : 0);
        if (has) for (int j = 0; j < WITEMS; j++) { cs(w, WLEN); for (int k = 0; k < WLEN; k++) put(w, d.wit[i][j][k]); }
    }
    le(w, d.locktime, 4);
}
static bool stream_eq(const DataStream& ds, const W& w)
{
    if (ds.size() != (size_t)w.n) return false;
    bool same = true;
    for (int i = 0; i < w.n; i++) same = same && (uint8_t)ds[i] == w.b[i];
    return same;
}
static bool same_tx(const Desc& d, const CMutableTransaction& t, bool with_witness)
{
    if (t.version != d.version || t.nLockTime != d.locktime || t.vin.size() != NIN || t.vout.size() != NOUT) return false;
    bool ok = true;
    for (int i = 0; i < NIN; i++) {
        ok = ok && memcmp(t.vin[i].prevout.hash.ToUint256().data(), d.prevhash[i], 32) == 0 && t.vin[i].prevout.n == d.previdx[i] && t.vin[i].nSequence == d.seq[i];
        ok = ok && t.vin[i].scriptSig.size() == SSLEN;
        if (t.vin[i].scriptSig.size() == SSLEN) for (int k = 0; k < SSLEN; k++) ok = ok && t.vin[i].scriptSig[k] == d.ss[i][k];
        const bool has = with_witness && ((WMASK >> i) & 1);
        const auto& st = t.vin[i].scriptWitness.stack;
        ok = ok && st.size() == (size_t)(has ? WITEMS : 0);
        if (has && st.size() == WITEMS) for (int j = 0; j < WITEMS; j++) { ok = ok && st[j].size() == WLEN; if (st[j].size() == WLEN) for (int k = 0; k < WLEN; k++) ok = ok && st[j][k] == d.wit[i][j][k]; }
    }
    for (int i = 0; i < NOUT; i++) {
        ok = ok && t.vout[i].nValue == d.value[i] && t.vout[i].scriptPubKey.size() == PKLEN;
        if (t.vout[i].scriptPubKey.size() == PKLEN) for (int k = 0; k < PKLEN; k++) ok = ok && t.vout[i].scriptPubKey[k] == d.pk[i][k];
    }
    return ok;
}

// serialize (both parameter sets) == reference bytes; deserialize == original object
extern "C" void h_tx_roundtrip()
{
    Desc d; draw(d);
    CMutableTransaction m; build(d, m);
    W full, basic; ref_ser(d, full, WMASK != 0); ref_ser(d, basic, false);

    DataStream a; a.reserve(MAXSER);
    a << TX_WITH_WITNESS(m);
    const bool ser_w = stream_eq(a, full);
    VASSERT(ser_w, "TX_WITH_WITNESS serialization equals the BIP144 reference bytes (extended form iff a witness is present)");
    VASSERT(GetSerializeSize(TX_WITH_WITNESS(m)) == (size_t)full.n, "GetSerializeSize(TX_WITH_WITNESS) equals the reference length");
    DataStream b; b.reserve(MAXSER);
    b << TX_NO_WITNESS(m);
    const bool ser_n = stream_eq(b, basic);
    VASSERT(ser_n, "TX_NO_WITNESS serialization equals the reference basic form");
    VASSERT(GetSerializeSize(TX_NO_WITNESS(m)) == (size_t)basic.n, "GetSerializeSize(TX_NO_WITNESS) equals the reference length");
    verif_observe(ser_w); verif_observe(ser_n);

    bool threw = false;
    CMutableTransaction r1, r2;
    try { a >> TX_WITH_WITNESS(r1); b >> TX_WITH_WITNESS(r2); } catch (const std::ios_base::failure&) { threw = true; }
    VASSERT(!threw, "serialized transactions deserialize");
    if (!threw) {
        const bool e1 = same_tx(d, r1, true), e2 = same_tx(d, r2, false);
        VASSERT(e1, "Unserialize(Serialize(tx)) == tx, field by field, witness included");
        VASSERT(e2, "the basic form deserializes to the same transaction without witness data");
        VASSERT(a.empty() && b.empty(), "deserialization consumes exactly the serialization");
        verif_observe(e1); verif_observe(e2);
    }
    VREACH("end");
}

// txid / wtxid commit to the basic / extended serialization (double hash), via the recording CSHA256 model
extern "C" void h_tx_ids()
{
    Desc d; draw(d);
    CMutableTransaction m; build(d, m);
    W full, basic; ref_ser(d, full, WMASK != 0); ref_ser(d, basic, false);
    g_nmsg = 0; g_cur = 0;
    const CTransaction tx(std::move(m));
    // message 1: basic serialization; message 2: digest of message 1; txid = digest of message 2
    VASSERT(g_nmsg >= 2, "txid computed with two hash invocations");
    bool m1 = g_msglen[0] == (unsigned)basic.n;
    for (int i = 0; i < basic.n; i++) m1 = m1 && g_msg[0][i] == basic.b[i];
    VASSERT(m1, "txid: first SHA256 is over exactly the non-witness serialization");
    bool m2 = g_msglen[1] == 32 && g_msg[1][0] == 1;
    for (int i = 1; i < 32; i++) m2 = m2 && g_msg[1][i] == 0;
    VASSERT(m2, "txid: second SHA256 is over the 32-byte first digest");
    VASSERT(tx.GetHash().ToUint256().data()[0] == 2, "txid is the second digest");
    VASSERT(tx.HasWitness() == (WMASK != 0), "HasWitness iff some input has a non-empty witness stack");
#if WMASK != 0
    VASSERT(g_nmsg == 4, "wtxid computed with two further hash invocations");
    bool m3 = g_msglen[2] == (unsigned)full.n;
    for (int i = 0; i < full.n; i++) m3 = m3 && g_msg[2][i] == full.b[i];
    VASSERT(m3, "wtxid: first SHA256 is over exactly the BIP144 extended serialization");
    bool m4 = g_msglen[3] == 32 && g_msg[3][0] == 3;
    for (int i = 1; i < 32; i++) m4 = m4 && g_msg[3][i] == 0;
    VASSERT(m4, "wtxid: second SHA256 is over the 32-byte first digest");
    VASSERT(tx.GetWitnessHash().ToUint256().data()[0] == 4, "wtxid is the second digest of the extended form");
#else
    VASSERT(g_nmsg == 2, "no further hashing without witness");
    VASSERT(tx.GetWitnessHash().ToUint256() == tx.GetHash().ToUint256(), "wtxid == txid for a transaction without witness");
#endif
    verif_observe(g_nmsg); verif_observe(m1);
    VREACH("end");
}

// ill-formed / ambiguous streams (concrete structure, symbolic payload): the decoder must reject them, or decode them as the format says
#ifndef KIND
#define KIND 1
#endif
#ifndef CUT
#define CUT 1
#endif
extern "C" void h_tx_malformed()
{
    Desc d; draw(d);
    W w;
#ifndef FLAG
#define FLAG 1
#endif
#if KIND == 1          // flag byte FLAG in an extended stream that carries a witness (needs WMASK != 0)
    const uint8_t f = FLAG; ref_ser(d, w, true, f);   // concrete per variant: a symbolic flag makes the decoder's vector sizes symbolic (out of reach)
#elif KIND == 2        // extended form although every witness stack is empty (needs WMASK == 0)
    ref_ser(d, w, true);
#elif KIND == 3        // non-canonical txin_count
    ref_ser(d, w, WMASK != 0, 1, D_NONCANON_VIN);
#elif KIND == 4        // non-canonical script length
    ref_ser(d, w, WMASK != 0, 1, D_NONCANON_SCRIPT);
#elif KIND == 5        // txout_count above MAX_SIZE
    ref_ser(d, w, WMASK != 0, 1, D_HUGE_VOUT);
#elif KIND == 6        // truncated by CUT bytes
    ref_ser(d, w, WMASK != 0); w.n -= CUT;
#endif
    DataStream ds{std::span<const uint8_t>(w.b, (size_t)w.n)};
    bool threw = false; CMutableTransaction r;
    try { ds >> TX_WITH_WITNESS(r); } catch (const std::ios_base::failure&) { threw = true; }
    verif_observe(threw);
#if KIND == 1
    // documented format: flags != 0 marks the extended form, bit 0 = witness data present, no other flag is defined;
    // [00][00] is the basic form of a transaction with no inputs and no outputs (lock time follows immediately)
    if (f == 1) { VASSERT(!threw && same_tx(d, r, true) && ds.empty(), "flag 0x01: the witness-carrying transaction is decoded"); }
    else if (f == 0) {
        VASSERT(!threw && r.vin.empty() && r.vout.empty(), "[00][00]: basic form of the empty transaction");
        if (!threw) {
            uint32_t lt = 0; for (int i = 0; i < 4; i++) lt |= (uint32_t)w.b[6 + i] << (8 * i);
            VASSERT(r.nLockTime == lt && r.version == d.version && ds.size() == (size_t)(w.n - 10), "empty transaction: lock time is the next 4 bytes, the rest is left in the stream");
        }
    } else VASSERT(threw, "undefined flag bits are rejected");
    VWITNESS(threw == (f > 1), "expected outcome reachable");
#elif KIND == 2
    VASSERT(threw, "superfluous witness record (extended form with only empty witness stacks) is rejected");
#elif KIND == 3
    VASSERT(threw, "non-canonical txin_count is rejected");
#elif KIND == 4
    VASSERT(threw, "non-canonical script length is rejected");
#elif KIND == 5
    VASSERT(threw, "txout_count above MAX_SIZE is rejected");
#elif KIND == 6
    VASSERT(threw, "truncated stream is rejected");
#endif
#if KIND != 1
    VWITNESS(threw, "rejection reachable");
#endif
    VREACH("end");
}
