// C48 kernel 1: CompactSize (serialize.h WriteCompactSize / ReadCompactSize / GetSizeOfCompactSize) over the real DataStream.
// Reference format (Bitcoin protocol documentation "variable length integer"):
//   n < 0xFD                -> 1 byte  n
//   n <= 0xFFFF             -> 0xFD + 2 bytes little endian
//   n <= 0xFFFFFFFF         -> 0xFE + 4 bytes little endian
//   otherwise               -> 0xFF + 8 bytes little endian
// Decoding accepts only the shortest form ("non-canonical compact sizes are rejected") and, with range_check, only n <= 0x02000000.
#include <verif.h>
#include <serialize.h>
#include <streams.h>
#include <span>

// memory_cleanse (support/cleanse.cpp) is called by DataStream's zero_after_free_allocator on deallocation; it has no observable effect here
void memory_cleanse(void* ptr, size_t len) {}

static const uint64_t REF_MAX_SIZE = 0x02000000ULL;

// independent reference encoder; returns length
static int ref_encode(uint64_t n, uint8_t out[9])
{
    int w;
    if (n < 0xFD) { out[0] = (uint8_t)n; return 1; }
    if (n <= 0xFFFFULL) { out[0] = 0xFD; w = 2; }
    else if (n <= 0xFFFFFFFFULL) { out[0] = 0xFE; w = 4; }
    else { out[0] = 0xFF; w = 8; }
    for (int i = 0; i < 8; i++) if (i < w) out[1 + i] = (uint8_t)(n >> (8 * i));
    return 1 + w;
}

// write -> bytes equal reference; read back -> identity; range check. All 2^64 values in one query.
// (No stream write happens after the four encoding classes merge: a std::vector insert at a symbolic size is what makes CBMC expensive.)
extern "C" void h_cs_write_read()
{
    const uint64_t n = nondet_u64();
    uint8_t ref[9]; const int rl = ref_encode(n, ref);
    DataStream ds;
    WriteCompactSize(ds, n);
    VASSERT(ds.size() == (size_t)rl, "WriteCompactSize emits the reference number of bytes");
    VASSERT(GetSizeOfCompactSize(n) == (unsigned)rl, "GetSizeOfCompactSize equals the reference length");
    bool same = true;
    for (int i = 0; i < 9; i++) if (i < rl && (size_t)i < ds.size()) same = same && (uint8_t)ds[i] == ref[i];
    VASSERT(same, "WriteCompactSize emits the reference bytes");
    bool threw = false; uint64_t back = 0;
    const bool rc = nondet_bool();
    try { back = ReadCompactSize(ds, rc); } catch (const std::ios_base::failure&) { threw = true; }
    verif_observe(threw); verif_observe(back);
    VASSERT(threw == (rc && n > REF_MAX_SIZE), "a written CompactSize reads back unless range-checked and above MAX_SIZE");
    if (!threw) {
        VASSERT(back == n, "ReadCompactSize(WriteCompactSize(n)) == n");
        VASSERT(ds.empty(), "exactly the encoding is consumed");
    }
    VWITNESS(!threw && rl == 1, "1-byte round trip");
    VWITNESS(!threw && rl == 3, "3-byte round trip");
    VWITNESS(!threw && rl == 5, "5-byte round trip");
    VWITNESS(!threw && rl == 9, "9-byte round trip");
    VWITNESS(threw, "range check rejection reachable");
    VWITNESS(!threw && rc && back == REF_MAX_SIZE, "MAX_SIZE itself is accepted");
    VREACH("end");
}

#ifndef LEN
#define LEN 9
#endif
// every byte string of length LEN: accepted <=> complete, canonical (shortest) and within range; value and consumed length as in the reference
extern "C" void h_cs_read_all()
{
    uint8_t b[LEN + 1];
    for (int i = 0; i < LEN; i++) b[i] = nondet_u8();
    const bool rc = nondet_bool();
    // reference decoder
    bool ok = false; uint64_t val = 0; int used = 0;
    if (LEN >= 1) {
        const int w = b[0] < 0xFD ? 0 : b[0] == 0xFD ? 2 : b[0] == 0xFE ? 4 : 8;
        if (LEN >= 1 + w) {
            if (w == 0) val = b[0];
            else for (int i = 0; i < 8; i++) if (i < w) val |= (uint64_t)b[1 + i] << (8 * i);
            const uint64_t minv = w == 0 ? 0 : w == 2 ? 0xFD : w == 4 ? 0x10000ULL : 0x100000000ULL;
            ok = val >= minv && !(rc && val > REF_MAX_SIZE);
            used = 1 + w;
        }
    }
    DataStream ds{std::span<const uint8_t>(b, (size_t)LEN)};
    bool threw = false; uint64_t got = 0;
    try { got = ReadCompactSize(ds, rc); } catch (const std::ios_base::failure&) { threw = true; }
    verif_observe(threw); verif_observe(got);
    VASSERT(threw == !ok, "ReadCompactSize accepts exactly complete canonical in-range encodings");
    if (ok) {
        VASSERT(!threw, "canonical in-range encoding accepted");
        VASSERT(got == val, "decoded value equals the reference value");
        VASSERT(ds.size() == (size_t)(LEN - used), "consumed length equals the reference length");
        // accepted => re-encoding reproduces the consumed bytes (canonical)
        uint8_t re[9]; const int rl = ref_encode(got, re);
        bool same = rl == used;
        for (int i = 0; i < 9; i++) if (i < rl && i < LEN) same = same && re[i] == b[i];
        VASSERT(same, "accepted encoding is the shortest encoding of its value");
    } else {
        VASSERT(threw, "truncated, non-canonical or oversized encoding rejected");
    }
#if LEN >= 1
    VWITNESS(!threw, "some string accepted");
#endif
#if LEN >= 3
    VWITNESS(threw && b[0] == 0xFD, "non-canonical 3-byte form rejected");
    VWITNESS(!threw && b[0] == 0xFD && got == 0xFD, "smallest canonical 3-byte form accepted");
#endif
#if LEN >= 5
    VWITNESS(!threw && b[0] == 0xFE && got == 0x10000, "smallest canonical 5-byte form accepted");
    VWITNESS(threw && rc && b[0] == 0xFE && val == REF_MAX_SIZE + 1, "MAX_SIZE+1 rejected under range check");
    VWITNESS(!threw && !rc && b[0] == 0xFE && val == REF_MAX_SIZE + 1, "MAX_SIZE+1 accepted without range check");
#endif
#if LEN >= 9
    VWITNESS(!threw && b[0] == 0xFF && got == 0x100000000ULL, "smallest canonical 9-byte form accepted");
    VWITNESS(threw && b[0] == 0xFF && val == 0xFFFFFFFFULL, "non-canonical 9-byte form rejected");
#endif
    VREACH("end");
}
