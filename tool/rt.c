/* runtime model for translated IR (prototype) */
#include <stdint.h>
#include <stddef.h>
#include <string.h>
#include <stdlib.h>
#ifdef __CPROVER__
#define MODEL_ASSUME(c) __CPROVER_assume(c)
#else
#define MODEL_ASSUME(c) do { if (!(c)) abort(); } while (0)
#endif
int verif_exc_pending; void* verif_exc_obj; void* verif_exc_type;
/* C++ exceptions: __cxa_throw records the thrown object and its std::type_info; a landing pad's catch clause matches when
   the thrown type is the clause type or derives from it through single inheritance (__si_class_type_info chain: field 2 of
   the type_info object is the base class type_info). The std exception hierarchy of libstdc++ is reproduced below. */
struct verif_ti { void* vt; const char* name; struct verif_ti* base; };
void* _ZTVN10__cxxabiv120__si_class_type_infoE[8];
void* _ZTVN10__cxxabiv117__class_type_infoE[8];
void* _ZTVN10__cxxabiv121__vmi_class_type_infoE[8];
#define VERIF_SI (&_ZTVN10__cxxabiv120__si_class_type_infoE[2])
#define VERIF_CI (&_ZTVN10__cxxabiv117__class_type_infoE[2])
struct verif_ti _ZTISt9exception = {VERIF_CI, "St9exception", 0};
struct verif_ti _ZTISt9bad_alloc = {VERIF_SI, "St9bad_alloc", &_ZTISt9exception};
struct verif_ti _ZTISt20bad_array_new_length = {VERIF_SI, "St20bad_array_new_length", &_ZTISt9bad_alloc};
struct verif_ti _ZTISt11logic_error = {VERIF_SI, "St11logic_error", &_ZTISt9exception};
struct verif_ti _ZTISt13runtime_error = {VERIF_SI, "St13runtime_error", &_ZTISt9exception};
struct verif_ti _ZTISt12out_of_range = {VERIF_SI, "St12out_of_range", &_ZTISt11logic_error};
struct verif_ti _ZTISt12length_error = {VERIF_SI, "St12length_error", &_ZTISt11logic_error};
struct verif_ti _ZTISt16invalid_argument = {VERIF_SI, "St16invalid_argument", &_ZTISt11logic_error};
struct verif_ti _ZTISt12domain_error = {VERIF_SI, "St12domain_error", &_ZTISt11logic_error};
struct verif_ti _ZTISt14overflow_error = {VERIF_SI, "St14overflow_error", &_ZTISt13runtime_error};
struct verif_ti _ZTISt11range_error = {VERIF_SI, "St11range_error", &_ZTISt13runtime_error};
struct verif_ti _ZTISt12system_error = {VERIF_SI, "St12system_error", &_ZTISt13runtime_error};
struct verif_ti _ZTINSt8ios_base7failureB5cxx11E = {VERIF_SI, "NSt8ios_base7failureB5cxx11E", &_ZTISt12system_error};
struct verif_ti _ZTISt8bad_cast = {VERIF_SI, "St8bad_cast", &_ZTISt9exception};
struct verif_ti _ZTISt17bad_function_call = {VERIF_SI, "St17bad_function_call", &_ZTISt9exception};
struct verif_ti _ZTISt19bad_optional_access = {VERIF_SI, "St19bad_optional_access", &_ZTISt9exception};
struct verif_ti _ZTISt18bad_variant_access = {VERIF_SI, "St18bad_variant_access", &_ZTISt9exception};
struct verif_ti _ZTIPKc = {VERIF_CI, "PKc", 0};   /* `throw "literal"` (util/string.h CheckNumFormatSpecifiers, runtime-evaluated under -Dconsteval=constexpr) */
int verif_exc_matches(void* tinfo) {
  if (tinfo == 0) return 1;
  struct verif_ti* t = (struct verif_ti*)verif_exc_type;
  for (int k = 0; k < 6 && t != 0; k++) {
    if ((void*)t == tinfo) return 1;
    if (t->vt != (void*)VERIF_SI) break;
    t = t->base;
  }
  return 0;
}
uint8_t* __cxa_allocate_exception(uint64_t n) { uint8_t* p = malloc(n <= 64 ? 64 : 256); MODEL_ASSUME(p != 0); return p; }
void __cxa_free_exception(uint8_t* p) {}
void __cxa_throw(uint8_t* obj, uint8_t* tinfo, uint8_t* dtor) { verif_exc_pending = 1; verif_exc_obj = obj; verif_exc_type = tinfo; }
/* std::exception family out-of-line members: the message is not modelled (what() returns an empty string) */
void _ZNSt9exceptionD2Ev(uint8_t* t) {}
void _ZNSt13runtime_errorC1ERKNSt7__cxx1112basic_stringIcSt11char_traitsIcESaIcEEE(uint8_t* t, uint8_t* s) {}
void _ZNSt13runtime_errorC2ERKNSt7__cxx1112basic_stringIcSt11char_traitsIcESaIcEEE(uint8_t* t, uint8_t* s) {}
void _ZNSt13runtime_errorC1EPKc(uint8_t* t, uint8_t* s) {}
void _ZNSt13runtime_errorC2EPKc(uint8_t* t, uint8_t* s) {}
void _ZNSt13runtime_errorD1Ev(uint8_t* t) {}
void _ZNSt13runtime_errorD2Ev(uint8_t* t) {}
void _ZNSt11logic_errorC1ERKNSt7__cxx1112basic_stringIcSt11char_traitsIcESaIcEEE(uint8_t* t, uint8_t* s) {}
void _ZNSt11logic_errorC2ERKNSt7__cxx1112basic_stringIcSt11char_traitsIcESaIcEEE(uint8_t* t, uint8_t* s) {}
void _ZNSt11logic_errorC1EPKc(uint8_t* t, uint8_t* s) {}
void _ZNSt11logic_errorC2EPKc(uint8_t* t, uint8_t* s) {}
void _ZNSt11logic_errorD1Ev(uint8_t* t) {}
void _ZNSt11logic_errorD2Ev(uint8_t* t) {}
void _ZNSt12out_of_rangeC1EPKc(uint8_t* t, uint8_t* s) {}
void _ZNSt12out_of_rangeC1ERKNSt7__cxx1112basic_stringIcSt11char_traitsIcESaIcEEE(uint8_t* t, uint8_t* s) {}
void _ZNSt12out_of_rangeD1Ev(uint8_t* t) {}
void _ZNSt12length_errorD1Ev(uint8_t* t) {}
void _ZNSt16invalid_argumentD1Ev(uint8_t* t) {}
void _ZNSt14overflow_errorD1Ev(uint8_t* t) {}
/* std::ios_base::failure (thrown by the stream classes in streams.h / serialize.h): message and error_code not modelled */
void _ZNSt8ios_base7failureB5cxx11C1EPKcRKSt10error_code(uint8_t* t, uint8_t* s, uint8_t* ec) {}
void _ZNSt8ios_base7failureB5cxx11C1ERKNSt7__cxx1112basic_stringIcSt11char_traitsIcESaIcEEERKSt10error_code(uint8_t* t, uint8_t* s, uint8_t* ec) {}
void _ZNSt8ios_base7failureB5cxx11C1ERKNSt7__cxx1112basic_stringIcSt11char_traitsIcESaIcEEE(uint8_t* t, uint8_t* s) {}
void _ZNSt8ios_base7failureB5cxx11D1Ev(uint8_t* t) {}
static uint8_t verif_iostream_category_obj[16];
uint8_t* _ZSt17iostream_categoryv(void) { return verif_iostream_category_obj; }
static const uint8_t verif_empty_what[1] = {0};
uint8_t* _ZNKSt13runtime_error4whatEv(uint8_t* t) { return (uint8_t*)verif_empty_what; }
uint8_t* _ZNKSt11logic_error4whatEv(uint8_t* t) { return (uint8_t*)verif_empty_what; }
uint8_t* _ZNKSt9exception4whatEv(uint8_t* t) { return (uint8_t*)verif_empty_what; }
long verif_typeid_for(void* tinfo) { return tinfo == 0 ? 1 : (long)(((uintptr_t)tinfo) & 0x7fffffff) | 2; }
unsigned __int128 verif_bswap(unsigned __int128 x, int n) { unsigned __int128 r = 0; for (int i = 0; i < n / 8; i++) { r = (r << 8) | (x & 0xff); x >>= 8; } return r; }
unsigned __int128 verif_ctpop(unsigned __int128 x, int n) { unsigned c = 0; for (int i = 0; i < n; i++) c += (x >> i) & 1; return c; }
unsigned __int128 verif_ctlz(unsigned __int128 x, int n) { /* loop-free binary search */ unsigned __int128 y = x << (128 - n); unsigned c = 0; if (!y) return n; if (!(y >> 64)) { c += 64; y <<= 64; } if (!(y >> 96)) { c += 32; y <<= 32; } if (!(y >> 112)) { c += 16; y <<= 16; } if (!(y >> 120)) { c += 8; y <<= 8; } if (!(y >> 124)) { c += 4; y <<= 4; } if (!(y >> 126)) { c += 2; y <<= 2; } if (!(y >> 127)) { c += 1; } return c; }
unsigned __int128 verif_cttz(unsigned __int128 x, int n) { unsigned c = 0; for (int i = 0; i < n; i++) { if ((x >> i) & 1) break; c++; } return c; }
unsigned __int128 verif_fshl(unsigned __int128 a, unsigned __int128 b, unsigned c, int n) { c %= n; unsigned __int128 m = n == 128 ? ~(unsigned __int128)0 : (((unsigned __int128)1 << n) - 1); if (!c) return a & m; return ((a << c) | (b >> (n - c))) & m; }
unsigned __int128 verif_fshr(unsigned __int128 a, unsigned __int128 b, unsigned c, int n) { c %= n; unsigned __int128 m = n == 128 ? ~(unsigned __int128)0 : (((unsigned __int128)1 << n) - 1); if (!c) return b & m; return ((a << (n - c)) | (b >> c)) & m; }

/* Untyped allocations are rounded up to size classes so that an allocation whose size is symbolic at the call site (e.g. a
   std::string copy after a path merge) becomes a case split over constant-size objects instead of a symbolic-size array.
   Over-allocation is unobservable for the code under test (no out-of-bounds/leak checks are claimed). */
static uint8_t* verif_alloc(uint64_t n) {
  uint8_t* p;
#if defined(__CPROVER__) && defined(VERIF_ALLOC_MAX)
  /* harness opt-in (spec: cbmc=['-D', 'VERIF_ALLOC_MAX=32']): every untyped allocation is ASSERTED to be <= VERIF_ALLOC_MAX bytes, so the
     large size classes (whose byte-wise updates dominate the formula on infeasible reallocation paths) need not exist. Sound: a feasible larger
     allocation fails the assertion. */
  __CPROVER_assert(n <= VERIF_ALLOC_MAX, "allocation within the harness's declared VERIF_ALLOC_MAX"); __CPROVER_assume(n <= VERIF_ALLOC_MAX);
  if (n <= 32 || VERIF_ALLOC_MAX <= 32) p = malloc(32); else if (n <= 128 || VERIF_ALLOC_MAX <= 128) p = malloc(128); else p = malloc(VERIF_ALLOC_MAX);
  MODEL_ASSUME(p != 0); return p;
#endif
  if (n <= 32) p = malloc(32); else if (n <= 128) p = malloc(128); else if (n <= 1024) p = malloc(1024); else p = malloc(n);
  MODEL_ASSUME(p != 0); return p; }
uint8_t* _Znwm(uint64_t n) { return verif_alloc(n); }
uint8_t* _Znam(uint64_t n) { return _Znwm(n); }
uint8_t* _ZnwmRKSt9nothrow_t(uint64_t n, uint8_t* nt) { return verif_alloc(n); }   /* operator new(size_t, std::nothrow): allocation failure out of scope, as for _Znwm */
/* deallocation is a no-op: memory is never reused (CBMC allocations are fresh objects anyway); use-after-free detection is outside every claim */
void _ZdlPv(uint8_t* p) { }
void _ZdlPvm(uint8_t* p, uint64_t n) { }
void _ZdaPv(uint8_t* p) { }
static void verif_throw_std(struct verif_ti* t) { verif_exc_pending = 1; verif_exc_obj = malloc(64); verif_exc_type = t; }
void _ZSt17__throw_bad_allocv(void) { verif_throw_std(&_ZTISt9bad_alloc); }
void _ZSt19__throw_logic_errorPKc(uint8_t* m) { verif_throw_std(&_ZTISt11logic_error); }
void _ZSt20__throw_length_errorPKc(uint8_t* m) { verif_throw_std(&_ZTISt12length_error); }
void _ZSt28__throw_bad_array_new_lengthv(void) { verif_throw_std(&_ZTISt20bad_array_new_length); }
void _ZSt20__throw_out_of_rangePKc(uint8_t* m) { verif_throw_std(&_ZTISt12out_of_range); }
void _ZSt24__throw_out_of_range_fmtPKcz(uint8_t* m, ...) { verif_throw_std(&_ZTISt12out_of_range); }
void _ZSt24__throw_invalid_argumentPKc(uint8_t* m) { verif_throw_std(&_ZTISt16invalid_argument); }
void _ZSt21__throw_runtime_errorPKc(uint8_t* m) { verif_throw_std(&_ZTISt13runtime_error); }
void _ZSt20__throw_overflow_errorPKc(uint8_t* m) { verif_throw_std(&_ZTISt14overflow_error); }
void _ZSt25__throw_bad_function_callv(void) { verif_throw_std(&_ZTISt17bad_function_call); }
void _ZSt27__throw_bad_optional_accessv(void) { verif_throw_std(&_ZTISt19bad_optional_access); }
void _ZSt9terminatev(void) {
#ifdef __CPROVER__
  __CPROVER_assert(0, "std::terminate");
#endif
  abort(); }
uint8_t* __cxa_begin_catch(uint8_t* o) { verif_exc_pending = 0; return o; }
void __cxa_end_catch(void) {}
void __cxa_rethrow(void) { verif_exc_pending = 1; }
uint32_t __cxa_atexit(uint8_t* f, uint8_t* a, uint8_t* d) { return 0; }
void __cxa_pure_virtual(void) {
#ifdef __CPROVER__
  __CPROVER_assert(0, "pure virtual function called");
#endif
  abort(); }


/* libstdc++ red-black tree helpers: see tool/models/stl_models.cpp (linked as IR so node types match) */
void _ZNSt8ios_base4InitC1Ev(uint8_t* s) {}
void _ZNSt8ios_base4InitD1Ev(uint8_t* s) {}

uint8_t* ll_malloc(uint64_t n) { return verif_alloc(n); }
void ll_free(uint8_t* p) { }
uint8_t* ll_realloc(uint8_t* p, uint64_t n) { return realloc(p, n); }
uint32_t ll_memcmp(uint8_t* a, uint8_t* b, uint64_t n) { return (uint32_t)memcmp(a, b, n); }
uint32_t ll_bcmp(uint8_t* a, uint8_t* b, uint64_t n) { return (uint32_t)memcmp(a, b, n); }
uint64_t ll_strlen(uint8_t* a) { return strlen((char*)a); }
uint64_t ll_strnlen(uint8_t* a, uint64_t n) { uint64_t i = 0; while (i < n && a[i]) i++; return i; }
uint32_t ll_strcmp(uint8_t* a, uint8_t* b) { return (uint32_t)strcmp((char*)a, (char*)b); }
uint8_t* ll_memchr(uint8_t* s, uint32_t c, uint64_t n) { for (uint64_t i = 0; i < n; i++) if (s[i] == (uint8_t)c) return s + i; return 0; }
void ll_abort(void) {
#ifdef __CPROVER__
  __CPROVER_assert(0, "abort() in code under test reached");
  __CPROVER_assume(0);
#else
  extern void verif_native_assert(int, const char*);
  verif_native_assert(0, "abort() in code under test reached");
#endif
}
void ll___assert_fail(uint8_t* a, uint8_t* f, uint32_t l, uint8_t* fn) {
#ifdef __CPROVER__
  __CPROVER_assert(0, "assert() in code under test failed");
  __CPROVER_assume(0);
#else
  extern void verif_native_assert(int, const char*);
  verif_native_assert(0, "assert() in code under test failed");
#endif
}

/* opt-in -DVERIF_MEMCPY_TYPED (harness defines): 2- and 4-byte copies are one typed load/store. Bytes copied one at a time into an integer object
   (stream deserialisation of LE16/LE32 fields through a non-inlined read(span)) are never constant-propagated by symex; a typed copy of constant bytes is. */
#if defined(__CPROVER__) && defined(VERIF_MEMCPY_TYPED)
#define VERIF_SMALL_COPY(d, s, n) if ((n) == 4) { *(uint32_t*)(d) = *(uint32_t*)(s); return (d); } else if ((n) == 2) { *(uint16_t*)(d) = *(uint16_t*)(s); return (d); }   /* no do-while: loop numbering (ll_memcpy.0) must not change */
#else
#define VERIF_SMALL_COPY(d, s, n)
#endif
uint8_t* ll_memcpy(uint8_t* d, uint8_t* s, uint64_t n) { VERIF_SMALL_COPY(d, s, n) for (uint64_t i = 0; i < n; i++) d[i] = s[i]; return d; }
uint8_t* ll_memmove(uint8_t* d, uint8_t* s, uint64_t n) {
  VERIF_SMALL_COPY(d, s, n)
#ifdef __CPROVER__
  int fwd = __CPROVER_same_object(d, s) ? (__CPROVER_POINTER_OFFSET(d) <= __CPROVER_POINTER_OFFSET(s)) : 1;
#else
  int fwd = (uintptr_t)d <= (uintptr_t)s;
#endif
  if (fwd) { for (uint64_t i = 0; i < n; i++) d[i] = s[i]; }
  else { for (uint64_t i = n; i > 0; i--) d[i-1] = s[i-1]; }
  return d; }
uint8_t* ll_memset(uint8_t* d, uint32_t c, uint64_t n) { for (uint64_t i = 0; i < n; i++) d[i] = (uint8_t)c; return d; }
/* function-local static initialisation guards (single-threaded model) */
uint32_t __cxa_guard_acquire(uint8_t* g) { return g[0] == 0; }
void __cxa_guard_release(uint8_t* g) { g[0] = 1; }
void __cxa_guard_abort(uint8_t* g) { }
