/* runtime model for translated IR (prototype) */
#include <stdint.h>
#include <stddef.h>
#include <string.h>
#include <stdlib.h>
int verif_exc_pending; void* verif_exc_obj; void* verif_exc_type;
int verif_exc_matches(void* tinfo) { return tinfo == 0 || tinfo == verif_exc_type; }
long verif_typeid_for(void* tinfo) { return tinfo == 0 ? 1 : (long)(((uintptr_t)tinfo) & 0x7fffffff) | 2; }
unsigned __int128 verif_bswap(unsigned __int128 x, int n) { unsigned __int128 r = 0; for (int i = 0; i < n / 8; i++) { r = (r << 8) | (x & 0xff); x >>= 8; } return r; }
unsigned __int128 verif_ctpop(unsigned __int128 x, int n) { unsigned c = 0; for (int i = 0; i < n; i++) c += (x >> i) & 1; return c; }
unsigned __int128 verif_ctlz(unsigned __int128 x, int n) { unsigned c = 0; for (int i = n - 1; i >= 0; i--) { if ((x >> i) & 1) break; c++; } return c; }
unsigned __int128 verif_cttz(unsigned __int128 x, int n) { unsigned c = 0; for (int i = 0; i < n; i++) { if ((x >> i) & 1) break; c++; } return c; }
unsigned __int128 verif_fshl(unsigned __int128 a, unsigned __int128 b, unsigned c, int n) { c %= n; unsigned __int128 m = n == 128 ? ~(unsigned __int128)0 : (((unsigned __int128)1 << n) - 1); if (!c) return a & m; return ((a << c) | (b >> (n - c))) & m; }
unsigned __int128 verif_fshr(unsigned __int128 a, unsigned __int128 b, unsigned c, int n) { c %= n; unsigned __int128 m = n == 128 ? ~(unsigned __int128)0 : (((unsigned __int128)1 << n) - 1); if (!c) return b & m; return ((a << (n - c)) | (b >> c)) & m; }

#ifdef __CPROVER__
#define MODEL_ASSUME(c) __CPROVER_assume(c)
#else
#define MODEL_ASSUME(c) do { if (!(c)) abort(); } while (0)
#endif
/* Untyped allocations are rounded up to size classes so that an allocation whose size is symbolic at the call site (e.g. a
   std::string copy after a path merge) becomes a case split over constant-size objects instead of a symbolic-size array.
   Over-allocation is unobservable for the code under test (no out-of-bounds/leak checks are claimed). */
static uint8_t* verif_alloc(uint64_t n) {
  uint8_t* p;
  if (n <= 32) p = malloc(32); else if (n <= 128) p = malloc(128); else if (n <= 1024) p = malloc(1024); else p = malloc(n);
  MODEL_ASSUME(p != 0); return p; }
uint8_t* _Znwm(uint64_t n) { return verif_alloc(n); }
uint8_t* _Znam(uint64_t n) { return _Znwm(n); }
/* deallocation is a no-op: memory is never reused (CBMC allocations are fresh objects anyway); use-after-free detection is outside every claim */
void _ZdlPv(uint8_t* p) { }
void _ZdlPvm(uint8_t* p, uint64_t n) { }
void _ZdaPv(uint8_t* p) { }
static int dummy_exc_type;
static void verif_throw_generic(void) { verif_exc_pending = 1; verif_exc_obj = 0; verif_exc_type = &dummy_exc_type; }
void _ZSt17__throw_bad_allocv(void) { verif_throw_generic(); }
void _ZSt19__throw_logic_errorPKc(uint8_t* m) { verif_throw_generic(); }
void _ZSt20__throw_length_errorPKc(uint8_t* m) { verif_throw_generic(); }
void _ZSt28__throw_bad_array_new_lengthv(void) { verif_throw_generic(); }
void _ZSt9terminatev(void) {
#ifdef __CPROVER__
  __CPROVER_assert(0, "std::terminate");
#endif
  abort(); }
uint8_t* __cxa_begin_catch(uint8_t* o) { verif_exc_pending = 0; return o; }
void __cxa_end_catch(void) {}
void __cxa_rethrow(void) { verif_exc_pending = 1; }
uint32_t __cxa_atexit(uint8_t* f, uint8_t* a, uint8_t* d) { return 0; }


/* libstdc++ red-black tree helpers: see tool/models/stl_models.cpp (linked as IR so node types match) */
void _ZNSt8ios_base4InitC1Ev(uint8_t* s) {}
void _ZNSt8ios_base4InitD1Ev(uint8_t* s) {}

uint8_t* ll_malloc(uint64_t n) { return verif_alloc(n); }
void ll_free(uint8_t* p) { }
uint8_t* ll_realloc(uint8_t* p, uint64_t n) { return realloc(p, n); }
uint32_t ll_memcmp(uint8_t* a, uint8_t* b, uint64_t n) { return (uint32_t)memcmp(a, b, n); }
uint32_t ll_bcmp(uint8_t* a, uint8_t* b, uint64_t n) { return (uint32_t)memcmp(a, b, n); }
uint64_t ll_strlen(uint8_t* a) { return strlen((char*)a); }
void ll___assert_fail(uint8_t* a, uint8_t* f, uint32_t l, uint8_t* fn) {
#ifdef __CPROVER__
  __CPROVER_assert(0, "assert() in code under test failed");
  __CPROVER_assume(0);
#else
  extern void verif_native_assert(int, const char*);
  verif_native_assert(0, "assert() in code under test failed");
#endif
}

uint8_t* ll_memcpy(uint8_t* d, uint8_t* s, uint64_t n) { for (uint64_t i = 0; i < n; i++) d[i] = s[i]; return d; }
uint8_t* ll_memmove(uint8_t* d, uint8_t* s, uint64_t n) {
  if ((uintptr_t)d <= (uintptr_t)s) { for (uint64_t i = 0; i < n; i++) d[i] = s[i]; }
  else { for (uint64_t i = n; i > 0; i--) d[i-1] = s[i-1]; }
  return d; }
uint8_t* ll_memset(uint8_t* d, uint32_t c, uint64_t n) { for (uint64_t i = 0; i < n; i++) d[i] = (uint8_t)c; return d; }
