// Models of libstdc++.so out-of-line helpers, compiled to IR and linked into every Route-B harness so that the
// node types are the real libstdc++ types (CBMC then constant-propagates the links).
// std::_Rb_tree_*: an UNBALANCED binary search tree with libstdc++'s header conventions. Observationally equivalent
// to the red-black tree for every std::set/map/multimap operation (ordering, lookup, insertion, erasure, iteration);
// only the shape (hence cost) differs. Root is kept black and the header red because _Rb_tree_decrement detects
// the header by colour.
#include <bits/stl_tree.h>
namespace std {
void _Rb_tree_insert_and_rebalance(const bool insert_left, _Rb_tree_node_base* x, _Rb_tree_node_base* p, _Rb_tree_node_base& header) throw()
{
    x->_M_parent = p; x->_M_left = 0; x->_M_right = 0; x->_M_color = _S_red;
    if (insert_left) {
        p->_M_left = x;
        if (p == &header) { header._M_parent = x; header._M_right = x; }
        else if (p == header._M_left) header._M_left = x;
    } else {
        p->_M_right = x;
        if (p == header._M_right) header._M_right = x;
    }
    header._M_parent->_M_color = _S_black;
}
_Rb_tree_node_base* _Rb_tree_increment(_Rb_tree_node_base* x) throw()
{
    if (x->_M_right != 0) { x = x->_M_right; while (x->_M_left != 0) x = x->_M_left; }
    else { _Rb_tree_node_base* y = x->_M_parent; while (x == y->_M_right) { x = y; y = y->_M_parent; } if (x->_M_right != y) x = y; }
    return x;
}
const _Rb_tree_node_base* _Rb_tree_increment(const _Rb_tree_node_base* x) throw() { return _Rb_tree_increment(const_cast<_Rb_tree_node_base*>(x)); }
_Rb_tree_node_base* _Rb_tree_decrement(_Rb_tree_node_base* x) throw()
{
    if (x->_M_color == _S_red && x->_M_parent->_M_parent == x) x = x->_M_right;
    else if (x->_M_left != 0) { _Rb_tree_node_base* y = x->_M_left; while (y->_M_right != 0) y = y->_M_right; x = y; }
    else { _Rb_tree_node_base* y = x->_M_parent; while (x == y->_M_left) { x = y; y = y->_M_parent; } x = y; }
    return x;
}
const _Rb_tree_node_base* _Rb_tree_decrement(const _Rb_tree_node_base* x) throw() { return _Rb_tree_decrement(const_cast<_Rb_tree_node_base*>(x)); }
_Rb_tree_node_base* _Rb_tree_rebalance_for_erase(_Rb_tree_node_base* const z, _Rb_tree_node_base& header) throw()
{
    _Rb_tree_node_base*& root = header._M_parent;
    _Rb_tree_node_base*& leftmost = header._M_left;
    _Rb_tree_node_base*& rightmost = header._M_right;
    _Rb_tree_node_base* y = z; _Rb_tree_node_base* x = 0;
    if (y->_M_left == 0) x = y->_M_right;
    else if (y->_M_right == 0) x = y->_M_left;
    else { y = y->_M_right; while (y->_M_left != 0) y = y->_M_left; x = y->_M_right; }
    if (y != z) {
        z->_M_left->_M_parent = y; y->_M_left = z->_M_left;
        if (y != z->_M_right) {
            if (x) x->_M_parent = y->_M_parent;
            y->_M_parent->_M_left = x;
            y->_M_right = z->_M_right; z->_M_right->_M_parent = y;
        }
        if (root == z) root = y;
        else if (z->_M_parent->_M_left == z) z->_M_parent->_M_left = y;
        else z->_M_parent->_M_right = y;
        y->_M_parent = z->_M_parent;
        y = z;
    } else {
        if (x) x->_M_parent = y->_M_parent;
        if (root == z) root = x;
        else if (z->_M_parent->_M_left == z) z->_M_parent->_M_left = x;
        else z->_M_parent->_M_right = x;
        if (leftmost == z) { if (z->_M_right == 0) leftmost = z->_M_parent; else { _Rb_tree_node_base* m = x; while (m->_M_left != 0) m = m->_M_left; leftmost = m; } }
        if (rightmost == z) { if (z->_M_left == 0) rightmost = z->_M_parent; else { _Rb_tree_node_base* m = x; while (m->_M_right != 0) m = m->_M_right; rightmost = m; } }
    }
    // colours: every node red except the root (header detection in _Rb_tree_decrement relies on header red / root black)
    y->_M_color = _S_red;
    if (root != 0) { root->_M_color = _S_black; }
    return y;
}
}

// std::unordered_map rehash policy (libstdc++.so: hashtable_c++0x.cc). The bucket-count sequence only affects performance,
// never the observable behaviour of the container; the model uses a short prime table and integer arithmetic, and requires the
// default max_load_factor of 1.0 (asserted).
#include <unordered_map>
extern "C" void __CPROVER_assert(int, const char*) noexcept;
namespace std { namespace __detail {
std::size_t _Prime_rehash_policy::_M_next_bkt(std::size_t n) const
{
    __CPROVER_assert(_M_max_load_factor == 1.0f, "stl model: default max_load_factor");
    __CPROVER_assert(n <= 257, "stl model: at most 257 buckets");
    const std::size_t r = n <= 2 ? 2 : n <= 5 ? 5 : n <= 13 ? 13 : n <= 29 ? 29 : n <= 59 ? 59 : n <= 127 ? 127 : 257;
    _M_next_resize = r;
    return r;
}
std::pair<bool, std::size_t> _Prime_rehash_policy::_M_need_rehash(std::size_t n_bkt, std::size_t n_elt, std::size_t n_ins) const
{
    __CPROVER_assert(_M_max_load_factor == 1.0f, "stl model: default max_load_factor");
    if (n_elt + n_ins > _M_next_resize) {
        std::size_t min_bkts = n_elt + n_ins;
        if (_M_next_resize == 0 && min_bkts < 11) min_bkts = 11;
        if (min_bkts >= n_bkt) {
            std::size_t want = min_bkts + 1; if (n_bkt * 2 > want) want = n_bkt * 2;
            return std::make_pair(true, _M_next_bkt(want));
        }
        _M_next_resize = n_bkt;
        return std::make_pair(false, std::size_t(0));
    }
    return std::make_pair(false, std::size_t(0));
}
}}

// std::allocator<char> special members: `extern template class allocator<char>` makes them symbols of libstdc++.so; they are referenced
// (instead of inlined) when linked TUs are compiled with H(interpose=True).
template class std::allocator<char>;
