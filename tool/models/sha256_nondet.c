#include <stdint.h>
/* CSHA256 stub: hash output is unconstrained (harnesses that do not depend on hashes) */
void _ZN7CSHA256C1Ev(uint8_t* s) {}
uint8_t* _ZN7CSHA2565ResetEv(uint8_t* s) { return s; }
uint8_t* _ZN7CSHA2565WriteEPKhm(uint8_t* s, uint8_t* d, uint64_t n) { return s; }
uint8_t nondet_uchar(void);
void _ZN7CSHA2568FinalizeEPh(uint8_t* s, uint8_t* out) { for (int i = 0; i < 32; i++) out[i] = nondet_uchar(); }
