/* Input/observation layer shared by the three builds of a harness:
 *   - CBMC (generated C + rt.c): inputs are solver-chosen; with -DVERIF_RECORD_TAPE they are
 *     also stored in verif_tape[] so a counterexample trace can be turned into a tape;
 *   - native build of the generated C (gcc) and native build of the reduced LLVM bitcode
 *     (clang): inputs come from a tape file (replay) or a seeded PRNG (differential).
 */
#include <stdint.h>
#include <stddef.h>
#include <string.h>
#include <stdlib.h>

#ifdef __CPROVER__
uint64_t nondet_verif_raw_u64(void);
#ifdef VERIF_RECORD_TAPE
uint64_t verif_tape[VERIF_TAPE_MAX];
uint32_t verif_tape_n;
#endif
static uint64_t verif_in(unsigned bits) {
  uint64_t v = nondet_verif_raw_u64();
  if (bits < 64) v &= (((uint64_t)1) << bits) - 1;
#ifdef VERIF_RECORD_TAPE
  if (verif_tape_n < VERIF_TAPE_MAX) verif_tape[verif_tape_n] = v;
  verif_tape_n++;
#endif
  return v;
}
uint64_t nondet_range(uint64_t lo, uint64_t hi) { uint64_t v = verif_in(64); __CPROVER_assume(v >= lo && v <= hi); return v; }
void verif_observe(uint64_t v) { (void)v; }
#else
#include <stdio.h>
static uint64_t* tape; static size_t tape_len, tape_pos; static int random_mode; static uint64_t rng;
static uint64_t obs = 1469598103934665603ULL;
static uint64_t splitmix(void) { uint64_t z = (rng += 0x9e3779b97f4a7c15ULL); z = (z ^ (z >> 30)) * 0xbf58476d1ce4e5b9ULL; z = (z ^ (z >> 27)) * 0x94d049bb133111ebULL; return z ^ (z >> 31); }
static uint64_t verif_in(unsigned bits) {
  uint64_t v;
  if (random_mode) {
    v = splitmix();
    /* bias towards boundary values so that differential runs reach interesting branches */
    switch (splitmix() % 8) { case 0: v = 0; break; case 1: v = ~(uint64_t)0; break; case 2: v &= 0xff; break; case 3: v = (uint64_t)1 << (v % 64); break; case 4: v = ((uint64_t)1 << (v % 64)) - 1; break; default: break; }
  } else {
    v = tape_pos < tape_len ? tape[tape_pos] : 0;
    tape_pos++;
  }
  if (bits < 64) v &= (((uint64_t)1) << bits) - 1;
  return v;
}
uint64_t nondet_range(uint64_t lo, uint64_t hi) {
  uint64_t v = verif_in(64);
  if (v < lo || v > hi) {
    if (!random_mode) { printf("ASSUME-FAIL range\n"); exit(77); }
    uint64_t span = hi - lo + 1; v = span ? lo + v % span : v;
  }
  return v;
}
void verif_observe(uint64_t v) { obs = (obs ^ v) * 1099511628211ULL; obs ^= obs >> 29; }
void verif_native_assume(int c) { if (!c) { printf("ASSUME-FAIL\n"); exit(77); } }
void verif_native_assert(int c, const char* msg) {
  if (c) return;
  if (msg && !strncmp(msg, "WITNESS:", 8)) return;
  printf("ASSERT-FAIL %s\n", msg ? msg : "?"); fflush(stdout); exit(1);
}
#ifdef VERIF_BC_BUILD
void __CPROVER_assume(int c) { verif_native_assume(c); }
void __CPROVER_assert(int c, const char* m) { verif_native_assert(c, m); }
#endif
#ifdef VERIF_MULTI
/* several harness entries in one binary: argv[1] names the entry, the remaining arguments are as in the single-entry build */
struct verif_entry { const char* name; void (*fn)(void); };
extern struct verif_entry verif_entries[];
#else
void VERIF_ENTRY(void);
#endif
int main(int argc, char** argv) {
#ifdef VERIF_MULTI
  if (argc < 2) { fprintf(stderr, "usage: %s <entry> [--seed N | tape]\n", argv[0]); return 3; }
  void (*entry_fn)(void) = 0;
  for (struct verif_entry* e = verif_entries; e->name; e++) if (!strcmp(e->name, argv[1])) entry_fn = e->fn;
  if (!entry_fn) { fprintf(stderr, "unknown entry %s\n", argv[1]); return 3; }
  argc--; argv++;
#endif
  if (argc >= 3 && !strcmp(argv[1], "--seed")) { random_mode = 1; rng = strtoull(argv[2], 0, 10) * 0x2545F4914F6CDD1DULL + 1; }
  else if (argc >= 2) {
    FILE* f = fopen(argv[1], "r"); if (!f) { perror("tape"); return 3; }
    size_t cap = 1024; tape = malloc(cap * sizeof *tape); static char line[16384];
    while (fgets(line, sizeof line, f)) { if (line[0] == '#' || line[0] == '\n') continue; if (tape_len == cap) { cap *= 2; tape = realloc(tape, cap * sizeof *tape); } tape[tape_len++] = strtoull(line, 0, 0); }
    fclose(f);
  }
#ifdef VERIF_MULTI
  entry_fn();
#else
  VERIF_ENTRY();
#endif
#if !defined(VERIF_BC_BUILD) && !defined(VERIF_NATIVE)
  { extern int verif_exc_pending; if (verif_exc_pending) { printf("ASSERT-FAIL uncaught exception escaped harness\n"); return 1; } }
#endif
  printf("OBS %016llx\n", (unsigned long long)obs);
  return 0;
}
#endif
uint8_t nondet_u8(void) { return (uint8_t)verif_in(8); }
uint16_t nondet_u16(void) { return (uint16_t)verif_in(16); }
uint32_t nondet_u32(void) { return (uint32_t)verif_in(32); }
uint64_t nondet_u64(void) { return verif_in(64); }
uint8_t nondet_bool(void) { return (uint8_t)verif_in(1); }
/* 0 under CBMC, 1 in the native builds: lets a contract stub draw its result nondeterministically (+assume) for the solver
 * and compute it deterministically for native replay / differential runs (the contract must determine the result uniquely). */
#ifdef __CPROVER__
uint32_t verif_native(void) { return 0; }
#else
uint32_t verif_native(void) { return 1; }
#endif
