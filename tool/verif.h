// Harness API (Route B: C++ harness -> clang-14 IR -> ll2c -> CBMC; also compiled natively for replay).
// Every harness input comes from one of the nondet_* functions below, so that a CBMC
// counterexample can be written out as an input tape and replayed natively.
#pragma once
#include <stdint.h>
#include <stddef.h>
extern "C" {
uint8_t nondet_u8(void) noexcept;
uint16_t nondet_u16(void) noexcept;
uint32_t nondet_u32(void) noexcept;
uint64_t nondet_u64(void) noexcept;
uint8_t nondet_bool(void) noexcept;
// value in [lo, hi] (CBMC: assumed; native random tape: reduced into range; native replay: checked)
uint64_t nondet_range(uint64_t lo, uint64_t hi) noexcept;
void __CPROVER_assume(int) noexcept;
void __CPROVER_assert(int, const char*) noexcept;
// fold a value into the observation hash compared by the per-run translator differential
void verif_observe(uint64_t) noexcept;
// 0 under CBMC, 1 in native replay/differential builds (for contract stubs whose result is unique: solver draws+assumes, native computes)
uint32_t verif_native(void) noexcept;
}
static inline int64_t nondet_i64() { return (int64_t)nondet_u64(); }
static inline int32_t nondet_i32() { return (int32_t)nondet_u32(); }
#define VASSERT(c, msg) __CPROVER_assert(!!(c), msg)
#define VASSUME(c) __CPROVER_assume(!!(c))
// reachability witness: must come back FAILURE from the solver, otherwise the harness is vacuous
#define VREACH(label) __CPROVER_assert(0, "WITNESS:" label)
// satisfiability witness: "some input makes c true" must be confirmed by the solver
#define VWITNESS(c, label) __CPROVER_assert(!(c), "WITNESS:" label)
