#!/usr/bin/env python3
"""setup: nothing to build or fetch; verify the pre-installed tools are present."""
import shutil, sys
missing = [t for t in ['cbmc', 'clang++-14', 'llvm-link-14', 'opt-14', 'llvm-dis-14', 'gcc', 'z3', 'cvc5', 'kissat'] if not shutil.which(t)]
if missing:
    print('missing tools: ' + ' '.join(missing)); sys.exit(1)
print('tools present')
