#!/usr/bin/env python3
"""ll2c prototype: LLVM-14 textual IR (typed pointers) -> C for CBMC / gcc.
Design probe only (see /verif/DESIGN.md).  Typed translation: LLVM named structs
become packed C structs with explicit padding; arrays are wrapped in structs so
they are first-class; every iN is an unsigned C integer masked to N bits.
Exceptions: a global pending flag checked after every call that may unwind.
"""
import re, sys, collections

# ----------------------------------------------------------------------------- lexer
TOK = re.compile(r'''
  \s+
 |(?P<str>c?"(?:[^"\\]|\\.)*")
 |(?P<lid>%"(?:[^"\\]|\\.)*"|%[-a-zA-Z$._0-9]+)
 |(?P<gid>@"(?:[^"\\]|\\.)*"|@[-a-zA-Z$._0-9]+)
 |(?P<meta>![-a-zA-Z$._0-9]*(?:\([^)]*\))?)
 |(?P<attr>\#[0-9]+)
 |(?P<comdat>\$"(?:[^"\\]|\\.)*"|\$[-a-zA-Z$._0-9]+)
 |(?P<num>-?0x[KLMHR]?[0-9a-fA-F]+|-?[0-9]+\.[0-9]*(?:[eE][-+]?[0-9]+)?|-?[0-9]+)
 |(?P<dots>\.\.\.)
 |(?P<word>[a-zA-Z_][a-zA-Z_0-9.]*)
 |(?P<p><\{|\}>|[(){}\[\]<>,=*:|])
''', re.X)

def lex(s):
    out = []; i = 0; n = len(s)
    while i < n:
        if s[i] == ';':
            break
        m = TOK.match(s, i)
        if not m:
            raise SyntaxError('lex error at %r' % s[i:i+40])
        i = m.end()
        k = m.lastgroup
        if k is None:
            continue
        out.append((k, m.group(k)))
    return out

# ----------------------------------------------------------------------------- types
class T:
    pass
class TVoid(T):
    def __repr__(s): return 'void'
class TInt(T):
    def __init__(s, n): s.n = n
    def __repr__(s): return 'i%d' % s.n
class TFloat(T):
    def __init__(s, k): s.k = k
    def __repr__(s): return s.k
class TPtr(T):
    def __init__(s, to): s.to = to
    def __repr__(s): return '%r*' % (s.to,)
class TArr(T):
    def __init__(s, n, el): s.n = n; s.el = el
    def __repr__(s): return '[%d x %r]' % (s.n, s.el)
class TVec(T):
    def __init__(s, n, el): s.n = n; s.el = el
    def __repr__(s): return '<%d x %r>' % (s.n, s.el)
class TStruct(T):
    def __init__(s, fields, packed): s.fields = fields; s.packed = packed
    def __repr__(s): return ('<{%s}>' if s.packed else '{%s}') % ','.join(map(repr, s.fields))
class TNamed(T):
    def __init__(s, name): s.name = name
    def __repr__(s): return s.name
class TFunc(T):
    def __init__(s, ret, params, va): s.ret = ret; s.params = params; s.va = va
    def __repr__(s): return '%r(%s%s)' % (s.ret, ','.join(map(repr, s.params)), ',...' if s.va else '')
class TOther(T):
    def __init__(s, k): s.k = k
    def __repr__(s): return s.k

VOID = TVoid()
FLOATS = {'half', 'bfloat', 'float', 'double', 'x86_fp80', 'fp128', 'ppc_fp128'}

class P:
    """token stream parser"""
    def __init__(s, toks): s.t = toks; s.i = 0
    def peek(s, k=0):
        return s.t[s.i + k] if s.i + k < len(s.t) else (None, None)
    def next(s):
        x = s.t[s.i]; s.i += 1; return x
    def accept(s, v):
        if s.i < len(s.t) and s.t[s.i][1] == v:
            s.i += 1; return True
        return False
    def expect(s, v):
        if not s.accept(v):
            raise SyntaxError('expected %r got %r (ctx %r)' % (v, s.peek(), s.t[max(0, s.i-6):s.i+6]))
    def end(s): return s.i >= len(s.t)

    def ptype(s):
        k, v = s.next()
        if k == 'word':
            if v == 'void': t = VOID
            elif re.fullmatch(r'i[0-9]+', v): t = TInt(int(v[1:]))
            elif v in FLOATS: t = TFloat(v)
            elif v in ('label', 'metadata', 'token', 'opaque', 'x86_mmx'): t = TOther(v)
            elif v == 'ptr': t = TPtr(TInt(8))
            else: raise SyntaxError('type word %r' % v)
        elif k == 'lid': t = TNamed(v)
        elif v == '{' or v == '<{':
            packed = v == '<{'
            fs = []
            close = '}>' if packed else '}'
            if not s.accept(close):
                while True:
                    fs.append(s.ptype())
                    if s.accept(close): break
                    s.expect(',')
            t = TStruct(fs, packed)
        elif v == '[':
            n = int(s.next()[1]); x = s.next(); assert x[1] == 'x', x
            el = s.ptype(); s.expect(']'); t = TArr(n, el)
        elif v == '<':
            n = int(s.next()[1]); x = s.next(); assert x[1] == 'x', x
            el = s.ptype(); s.expect('>'); t = TVec(n, el)
        else:
            raise SyntaxError('type token %r %r' % (k, v))
        while True:
            if s.accept('*'):
                t = TPtr(t)
            elif s.peek()[1] == 'addrspace':
                s.next(); s.expect('('); s.next(); s.expect(')')
            elif s.peek()[1] == '(' :
                s.next(); ps = []; va = False
                if not s.accept(')'):
                    while True:
                        if s.accept('...'): va = True
                        else: ps.append(s.ptype())
                        if s.accept(')'): break
                        s.expect(',')
                t = TFunc(t, ps, va)
            else:
                return t

# ----------------------------------------------------------------------------- values
class V:  # value tree
    def __init__(s, kind, ty=None, **kw): s.kind = kind; s.ty = ty; s.__dict__.update(kw)
    def __repr__(s): return 'V(%s,%r,%r)' % (s.kind, s.ty, {k: v for k, v in s.__dict__.items() if k not in ('kind', 'ty')})

CASTS = {'bitcast', 'inttoptr', 'ptrtoint', 'trunc', 'zext', 'sext', 'addrspacecast', 'fptrunc', 'fpext', 'sitofp', 'uitofp', 'fptosi', 'fptoui'}
BINOPS = {'add', 'sub', 'mul', 'udiv', 'sdiv', 'urem', 'srem', 'shl', 'lshr', 'ashr', 'and', 'or', 'xor', 'fadd', 'fsub', 'fmul', 'fdiv', 'frem'}
PARAM_ATTRS = {'noundef', 'nonnull', 'noalias', 'nocapture', 'readonly', 'readnone', 'writeonly', 'returned', 'signext', 'zeroext', 'inreg', 'nest', 'immarg', 'nofree', 'swiftself', 'swifterror', 'noreturn'}
PARAM_ATTRS_ARG = {'align', 'dereferenceable', 'dereferenceable_or_null'}
PARAM_ATTRS_TY = {'sret', 'byval', 'byref', 'inalloca', 'preallocated', 'elementtype'}

def skip_param_attrs(p):
    attrs = {}
    while True:
        k, v = p.peek()
        if k == 'word' and v in PARAM_ATTRS:
            p.next(); attrs[v] = True
        elif k == 'word' and v in PARAM_ATTRS_ARG:
            p.next()
            if p.accept('('): p.next(); p.expect(')')
            else: p.next()
        elif k == 'word' and v in PARAM_ATTRS_TY:
            p.next(); p.expect('('); attrs[v] = p.ptype(); p.expect(')')
        else:
            return attrs

def pvalue(p, ty):
    k, v = p.next()
    if k == 'lid': return V('local', ty, name=v)
    if k == 'gid': return V('global', ty, name=v)
    if k == 'num':
        if isinstance(ty, TFloat): return V('fconst', ty, text=v)
        return V('int', ty, val=int(v, 0) if not v.startswith('0x') else int(v, 16))
    if k == 'word':
        if v == 'true': return V('int', ty, val=1)
        if v == 'false': return V('int', ty, val=0)
        if v == 'null': return V('null', ty)
        if v in ('undef', 'poison'): return V('undef', ty)
        if v == 'zeroinitializer': return V('zero', ty)
        if v == 'getelementptr':
            p.accept('inbounds'); p.expect('(')
            sty = p.ptype(); p.expect(',')
            ops = []
            while True:
                p.accept('inrange')
                t = p.ptype(); ops.append(pvalue(p, t))
                if p.accept(')'): break
                p.expect(',')
            return V('cgep', ty, sty=sty, ops=ops)
        if v in CASTS:
            p.expect('('); t = p.ptype(); x = pvalue(p, t); p.expect('to'); t2 = p.ptype(); p.expect(')')
            return V('ccast', t2, op=v, x=x)
        if v in BINOPS:
            while p.peek()[1] in ('nuw', 'nsw', 'exact'): p.next()
            p.expect('('); t = p.ptype(); a = pvalue(p, t); p.expect(','); t2 = p.ptype(); b = pvalue(p, t2); p.expect(')')
            return V('cbin', t, op=v, a=a, b=b)
        if v == 'icmp':
            pred = p.next()[1]; p.expect('('); t = p.ptype(); a = pvalue(p, t); p.expect(','); t2 = p.ptype(); b = pvalue(p, t2); p.expect(')')
            return V('cicmp', TInt(1), pred=pred, a=a, b=b)
        if v == 'select':
            p.expect('('); t = p.ptype(); c = pvalue(p, t); p.expect(','); t1 = p.ptype(); a = pvalue(p, t1); p.expect(','); t2 = p.ptype(); b = pvalue(p, t2); p.expect(')')
            return V('cselect', t1, c=c, a=a, b=b)
        raise SyntaxError('value word %r' % v)
    if k == 'str':
        assert v[0] == 'c'
        raw = v[2:-1]; bs = bytearray(); i = 0
        while i < len(raw):
            if raw[i] == '\\':
                if raw[i+1] == '\\': bs.append(92); i += 2
                else: bs.append(int(raw[i+1:i+3], 16)); i += 3
            else: bs.append(ord(raw[i])); i += 1
        return V('bytes', ty, data=bytes(bs))
    if v in ('{', '<{', '[', '<'):
        close = {'{': '}', '<{': '}>', '[': ']', '<': '>'}[v]
        if v == '<' and p.peek()[1] == '{':  # packed struct constant written as <{ ... }> is lexed as '<{' already
            pass
        els = []
        if not p.accept(close):
            while True:
                t = p.ptype(); els.append(pvalue(p, t))
                if p.accept(close): break
                p.expect(',')
        return V('agg', ty, els=els)
    raise SyntaxError('value token %r %r' % (k, v))

def ptyped(p):
    t = p.ptype(); skip_param_attrs(p); return pvalue(p, t)

# ----------------------------------------------------------------------------- module
class Func:
    def __init__(s): s.blocks = collections.OrderedDict(); s.params = []; s.name = None; s.ret = None; s.va = False; s.defined = False; s.pattrs = []
class Inst:
    def __init__(s, res, op, **kw): s.res = res; s.op = op; s.__dict__.update(kw)

class Module:
    def __init__(s):
        s.types = collections.OrderedDict(); s.globals = collections.OrderedDict(); s.funcs = collections.OrderedDict(); s.aliases = {}

LINKAGE = {'private', 'internal', 'available_externally', 'linkonce', 'weak', 'common', 'appending', 'extern_weak', 'linkonce_odr', 'weak_odr', 'external',
           'dso_local', 'dso_preemptable', 'default', 'hidden', 'protected', 'dllimport', 'dllexport', 'unnamed_addr', 'local_unnamed_addr', 'externally_initialized',
           'thread_local', 'fastcc', 'ccc', 'coldcc', 'tailcc'}

def parse_module(text):
    m = Module()
    lines = text.split('\n')
    i = 0
    cur = None; curblock = None
    while i < len(lines):
        ln = lines[i]; i += 1
        st = ln.strip()
        if not st or st.startswith(';'): continue
        if cur is None:
            if st.startswith(('source_filename', 'target ', 'attributes ', '!', '$', 'module asm')): continue
            if st.startswith('%') or (st.startswith('"') is False and re.match(r'%\S+ = type', st)):
                toks = lex(st); p = P(toks)
                name = p.next()[1]; p.expect('='); p.expect('type')
                if p.peek()[1] == 'opaque': m.types[name] = None
                else: m.types[name] = p.ptype()
                continue
            if st.startswith('@'):
                toks = lex(st); p = P(toks)
                name = p.next()[1]; p.expect('=')
                while p.peek()[1] in LINKAGE:
                    if p.next()[1] == 'thread_local' and p.accept('('): p.next(); p.expect(')')
                if p.peek()[1] == 'alias':
                    p.next(); p.ptype(); p.expect(','); t = p.ptype(); tgt = pvalue(p, t)
                    m.aliases[name] = tgt; continue
                if p.peek()[1] == 'addrspace': p.next(); p.expect('('); p.next(); p.expect(')')
                kind = p.next()[1]; assert kind in ('global', 'constant'), st[:80]
                ty = p.ptype(); init = None
                if not p.end() and p.peek()[1] != ',':
                    init = pvalue(p, ty)
                m.globals[name] = (ty, init, kind == 'constant')
                continue
            if st.startswith('declare') or st.startswith('define'):
                toks = lex(st); p = P(toks); kw = p.next()[1]
                while p.peek()[1] in LINKAGE: p.next()
                f = Func(); f.defined = kw == 'define'
                # return attrs
                skip_param_attrs(p)
                f.ret = parse_ret_type(p)
                f.name = p.next()[1]
                p.expect('(')
                if not p.accept(')'):
                    while True:
                        if p.accept('...'): f.va = True
                        else:
                            t = p.ptype(); at = skip_param_attrs(p)
                            nm = None
                            if p.peek()[0] == 'lid': nm = p.next()[1]
                            f.params.append((t, nm)); f.pattrs.append(at)
                        if p.accept(')'): break
                        p.expect(',')
                m.funcs[f.name] = f
                if f.defined:
                    cur = f; curblock = None
                    # unnamed params numbering
                    n = 0
                    ps = []
                    for (t, nm) in f.params:
                        if nm is None: nm = '%' + str(n); n += 1
                        elif re.match(r'^%\d+$', nm): n = int(nm[1:]) + 1
                        ps.append((t, nm))
                    f.params = ps
                    f._next = n
                continue
            raise SyntaxError('toplevel: ' + st[:100])
        else:
            if st == '}':
                cur = None; continue
            mlabel = re.match(r'^([-a-zA-Z$._0-9]+|"(?:[^"\\]|\\.)*"):', st)
            if mlabel:
                curblock = []; cur.blocks['%' + mlabel.group(1)] = curblock; continue
            if curblock is None:
                curblock = []; cur.blocks['%' + str(cur._next)] = curblock
            # multi-line constructs
            if ' switch ' in (' ' + st) and st.rstrip().endswith('['):
                while not lines[i].strip().startswith(']'):
                    st += ' ' + lines[i].strip(); i += 1
                st += ' ]'; i += 1
            if re.match(r'^(%\S+ = )?invoke ', st) and 'unwind label' not in st:
                st += ' ' + lines[i].strip(); i += 1
            if 'landingpad' in st:
                while i < len(lines) and lines[i].strip().split(' ')[0] in ('cleanup', 'catch', 'filter'):
                    st += ' ' + lines[i].strip(); i += 1
            curblock.append(st)
    return m

def parse_ret_type(p):
    # return type followed by @name: parse base type then only '*' suffixes unless followed by further '(' groups before the @name
    # Strategy: try full ptype; if next token is not a gid, backtrack and parse without call-paren consumption.
    save = p.i
    t = p.ptype()
    if p.peek()[0] == 'gid':
        return t
    p.i = save
    # parse type but stop before the last '(' group: emulate by parsing base and stars only
    k, v = p.peek()
    # simple approach: parse base+stars manually
    t = parse_type_nofn(p)
    return t

def parse_type_nofn(p):
    save_t = p.t
    # find index of the function name (first gid at depth 0)
    depth = 0; j = p.i
    while j < len(p.t):
        k, v = p.t[j]
        if v in ('(', '{', '[', '<', '<{'): depth += 1
        elif v in (')', '}', ']', '>', '}>'): depth -= 1
        elif k == 'gid' and depth == 0: break
        j += 1
    sub = P(p.t[p.i:j]); t = sub.ptype()
    assert sub.end(), (sub.t, sub.i)
    p.i = j
    return t

LIBC = {'malloc', 'free', 'realloc', 'calloc', 'memcmp', 'strlen', 'strnlen', 'memchr', 'abort', 'strcmp', '__assert_fail', 'memcpy', 'memmove', 'memset', 'bcmp'}
# ----------------------------------------------------------------------------- C emission
class Emitter:
    def __init__(s, m, opts):
        s.m = m; s.opts = opts
        s.cnames = {}; s.used = set()
        s.out = []
        s.struct_names = {}   # repr(type) -> C struct name for literal struct/array types
        s.struct_defs = []    # emitted in dependency order
        s.defined_structs = set()
        s.fnptr_types = {}
        s.externs_used = set()

    # ---- names
    def cname(s, name, prefix):
        key = (prefix, name)
        if key in s.cnames: return s.cnames[key]
        raw = name[1:]
        if raw.startswith('"'): raw = raw[1:-1]
        base = re.sub(r'[^A-Za-z0-9_]', '_', raw)
        if prefix == 'g' and raw in LIBC:
            c = 'll_' + raw
        elif prefix == 'g' and re.fullmatch(r'[A-Za-z_][A-Za-z0-9_]*', raw):
            c = raw  # keep linkable names for functions/globals
        else:
            c = prefix + '_' + base
            if len(c) > 100:
                import hashlib
                c = c[:80] + '_' + hashlib.md5(raw.encode()).hexdigest()[:8]
        while c in s.used:
            c += '_'
        s.used.add(c); s.cnames[key] = c
        return c

    # ---- layout
    def resolve(s, t):
        while isinstance(t, TNamed):
            r = s.m.types.get(t.name)
            if r is None: return t
            t = r
        return t
    def size_align(s, t):
        t0 = t; t = s.resolve(t)
        if isinstance(t, TInt):
            b = (t.n + 7) // 8
            sz = 1
            while sz < b: sz *= 2
            return sz, min(sz, 16) if sz <= 16 else 16
        if isinstance(t, TFloat):
            return {'half': (2, 2), 'float': (4, 4), 'double': (8, 8), 'x86_fp80': (16, 16), 'fp128': (16, 16)}[t.k]
        if isinstance(t, TPtr): return 8, 8
        if isinstance(t, TArr):
            sz, al = s.size_align(t.el); return sz * t.n, al
        if isinstance(t, TVec):
            sz, al = s.size_align(t.el); tot = sz * t.n
            a = 1
            while a < tot: a *= 2
            return tot, a
        if isinstance(t, TStruct):
            off = 0; mal = 1
            for f in t.fields:
                sz, al = s.size_align(f)
                if t.packed: al = 1
                off = (off + al - 1) // al * al
                off += sz; mal = max(mal, al)
            off = (off + mal - 1) // mal * mal
            return off, mal
        if isinstance(t, TNamed): raise ValueError('opaque type size: %r' % t)
        raise ValueError('size of %r' % (t,))
    def field_offsets(s, t):
        t = s.resolve(t)
        offs = []; off = 0; mal = 1
        for f in t.fields:
            sz, al = s.size_align(f)
            if t.packed: al = 1
            off = (off + al - 1) // al * al
            offs.append(off); off += sz; mal = max(mal, al)
        return offs, (off + mal - 1) // mal * mal

    # ---- C types
    def int_ctype(s, n):
        if n <= 8: return 'uint8_t'
        if n <= 16: return 'uint16_t'
        if n <= 32: return 'uint32_t'
        if n <= 64: return 'uint64_t'
        if n <= 128: return 'unsigned __int128'
        raise ValueError('i%d unsupported' % n)
    def sint_ctype(s, n):
        if n <= 8: return 'int8_t'
        if n <= 16: return 'int16_t'
        if n <= 32: return 'int32_t'
        if n <= 64: return 'int64_t'
        return '__int128'
    def gtype(s, t):
        """generic C type used in prototypes of external (undefined) functions"""
        if isinstance(s.resolve(t), TPtr): return 'uint8_t*'
        return s.ctype(t)
    def ctype(s, t):
        if isinstance(t, TVoid): return 'void'
        if isinstance(t, TInt): return s.int_ctype(t.n)
        if isinstance(t, TFloat):
            return {'float': 'float', 'double': 'double', 'x86_fp80': 'long double'}[t.k]
        if isinstance(t, TPtr):
            to = t.to
            if isinstance(to, TFunc): return s.fnptr_ctype(to)
            if isinstance(to, TVoid) or isinstance(to, TOther): return 'uint8_t*'
            if isinstance(to, TNamed) and s.m.types.get(to.name) is None:
                return 'struct %s*' % s.cname(to.name, 's')
            return s.ctype(to) + '*'
        if isinstance(t, TNamed):
            s.need_struct(t); return 'struct %s' % s.cname(t.name, 's')
        if isinstance(t, (TStruct, TArr, TVec)):
            return 'struct %s' % s.lit_struct(t)
        if isinstance(t, TFunc): return 'void'
        raise ValueError('ctype %r' % (t,))
    def fnptr_ctype(s, ft):
        key = repr(ft)
        if key not in s.fnptr_types:
            nm = 'fnty_%d' % len(s.fnptr_types)
            s.fnptr_types[key] = nm
            ps = ', '.join(s.ctype(p) for p in ft.params) or 'void'
            if ft.va: ps = (ps + ', ...') if ft.params else ''   # `i32 (...)*` (vtable slot type): C has no `(...)`; use an unprototyped pointer type
            s.struct_defs.append('typedef %s (*%s)(%s);' % (s.ctype(ft.ret), nm, ps))
        return s.fnptr_types[key]
    def lit_struct(s, t):
        key = repr(t)
        if key in s.struct_names: return s.struct_names[key]
        nm = 'lit_%d' % len(s.struct_names)
        s.struct_names[key] = nm
        s.emit_struct_def(nm, t)
        return nm
    def need_struct(s, t):
        nm = s.cname(t.name, 's')
        if nm in s.defined_structs: return
        s.defined_structs.add(nm)
        body = s.m.types.get(t.name)
        if body is None:
            s.struct_defs.append('struct %s;' % nm); return
        s.emit_struct_def(nm, body)
    def emit_struct_def(s, nm, t):
        if isinstance(t, (TArr, TVec)):
            el = s.ctype(t.el)
            s.struct_defs.append('struct %s { %s e[%d]; } __attribute__((packed));' % (nm, el, max(t.n, 1) if t.n else 0))
            return
        lines = []
        # forward-declare for self-referential pointers
        s.struct_defs.append('struct %s;' % nm)
        offs, total = s.field_offsets(t)
        pos = 0; npad = 0
        for i, f in enumerate(t.fields):
            if offs[i] > pos:
                lines.append('uint8_t pad%d[%d];' % (npad, offs[i] - pos)); npad += 1
            lines.append('%s f%d;' % (s.ctype(f), i))
            pos = offs[i] + s.size_align(f)[0]
        if total > pos:
            lines.append('uint8_t pad%d[%d];' % (npad, total - pos))
        if not lines: lines.append('uint8_t empty_[0];')
        s.struct_defs.append('struct %s { %s } __attribute__((packed));' % (nm, ' '.join(lines)))

    # ---- constants / values
    def mask(s, n, e):
        if n in (8, 16, 32, 64, 128): return e
        if n < 64: return '((%s)&%dULL)' % (e, (1 << n) - 1)
        return '((%s)&((((unsigned __int128)1)<<%d)-1))' % (e, n)
    def intlit(s, n, v):
        v &= (1 << n) - 1
        if n > 64:
            return '((((unsigned __int128)%dULL)<<64)|%dULL)' % (v >> 64, v & ((1 << 64) - 1))
        return '((%s)%dULL)' % (s.int_ctype(n), v)
    def zero_of(s, t):
        r = s.resolve(t)
        if isinstance(r, (TInt, TFloat)): return '0'
        if isinstance(r, TPtr): return '0'
        return '(%s){0}' % s.ctype(t)
    def gref(s, name):
        if name in s.m.aliases:
            tgt = s.m.aliases[name]
            return s.val(tgt, None)
        if name in s.m.funcs: return s.cname(name, 'g')
        return '(&%s)' % s.cname(name, 'g')
    def val(s, v, fn):
        k = v.kind
        if k == 'local': return fn.lname(v.name)
        if k == 'global':
            if v.name in s.m.funcs or (v.name in s.m.aliases and s.m.aliases[v.name].kind == 'global' and s.m.aliases[v.name].name in s.m.funcs):
                tgt = v.name if v.name in s.m.funcs else s.m.aliases[v.name].name
                return '((%s)%s)' % (s.ctype(v.ty), s.cname(tgt, 'g'))
            return '((%s)%s)' % (s.ctype(v.ty), s.gref(v.name))
        if k == 'int': return s.intlit(v.ty.n, v.val)
        if k == 'fconst': return s.fconst(v)
        if k == 'null': return '((%s)0)' % s.ctype(v.ty)
        if k in ('undef', 'zero'): return s.zero_of(v.ty)
        if k == 'ccast': return s.cast(v.op, v.x.ty, v.ty, s.val(v.x, fn))
        if k == 'cgep': return s.gep(v.sty, v.ops, fn, v.ty)[0]
        if k == 'cbin': return s.binop(v.op, v.a.ty, s.val(v.a, fn), s.val(v.b, fn))
        if k == 'cicmp': return s.icmp(v.pred, v.a.ty, s.val(v.a, fn), s.val(v.b, fn))
        if k == 'cselect': return '((%s)?(%s):(%s))' % (s.val(v.c, fn), s.val(v.a, fn), s.val(v.b, fn))
        if k in ('agg', 'bytes'): return '((%s)%s)' % (s.ctype(v.ty), s.init(v))
        raise ValueError('val kind ' + k)
    def fconst(s, v):
        t = v.text
        if t.startswith('0x') and v.ty.k in ('double', 'float'):
            import struct
            return repr(struct.unpack('>d', bytes.fromhex(t[2:].rjust(16, '0')))[0])
        return t
    def init(s, v):
        """brace initializer (static context allowed)"""
        k = v.kind
        r = s.resolve(v.ty)
        if k in ('zero', 'undef'):
            if isinstance(r, (TStruct, TArr, TVec)): return '{0}'
            return '0'
        if k == 'bytes': return '{{' + ','.join(str(b) for b in v.data) + '}}'
        if k == 'agg':
            if isinstance(r, (TArr, TVec)): return '{{' + ','.join(s.init(e) for e in v.els) + '}}'
            if not v.els: return '{0}'
            return '{' + ','.join('.f%d=%s' % (i, s.init(e)) for i, e in enumerate(v.els)) + '}'
        return s.val(v, None)

    def sx(s, n, e):
        """sign-extended C signed value of an n-bit unsigned expr"""
        st = s.sint_ctype(n)
        w = {'int8_t': 8, 'int16_t': 16, 'int32_t': 32, 'int64_t': 64, '__int128': 128}[st]
        if w == n: return '((%s)(%s))' % (st, e)
        ut = s.int_ctype(n)
        return '(((%s)((%s)(%s) << %d)) >> %d)' % (st, ut, e, w - n, w - n)
    def cast(s, op, ft, tt, e):
        fr = s.resolve(ft); tr = s.resolve(tt)
        if op in ('bitcast', 'addrspacecast'):
            if isinstance(fr, TPtr) and isinstance(tr, TPtr): return '((%s)(%s))' % (s.ctype(tt), e)
            if isinstance(fr, TInt) and isinstance(tr, TInt): return e
            return 'BITCAST(%s,%s,%s)' % (s.ctype(tt), s.ctype(ft), e)
        if op == 'inttoptr': return '((%s)(uintptr_t)(%s))' % (s.ctype(tt), e)
        if op == 'ptrtoint': return s.mask(tr.n, '((%s)(uintptr_t)(%s))' % (s.ctype(tt), e))
        if op == 'trunc': return s.mask(tr.n, '((%s)(%s))' % (s.ctype(tt), e))
        if op == 'zext': return '((%s)(%s))' % (s.ctype(tt), e)
        if op == 'sext': return s.mask(tr.n, '((%s)%s)' % (s.ctype(tt), s.sx(fr.n, e)))
        if op in ('sitofp',): return '((%s)%s)' % (s.ctype(tt), s.sx(fr.n, e))
        if op in ('uitofp', 'fpext', 'fptrunc'): return '((%s)(%s))' % (s.ctype(tt), e)
        if op == 'fptoui': return s.mask(tr.n, '((%s)(%s))' % (s.ctype(tt), e))
        if op == 'fptosi': return s.mask(tr.n, '((%s)(%s)(%s))' % (s.ctype(tt), s.sint_ctype(tr.n), e))
        raise ValueError('cast ' + op)
    def binop(s, op, t, a, b, flags=()):
        r = s.resolve(t)
        if isinstance(r, TFloat):
            c = {'fadd': '+', 'fsub': '-', 'fmul': '*', 'fdiv': '/'}[op]
            return '((%s)%s(%s))' % (a, c, b)
        n = r.n; ct = s.int_ctype(n)
        w = {'uint8_t': 8, 'uint16_t': 16, 'uint32_t': 32, 'uint64_t': 64, 'unsigned __int128': 128}[ct]
        big = 'unsigned __int128' if w == 128 else 'uint64_t'
        if op in ('add', 'sub', 'mul', 'and', 'or', 'xor'):
            c = {'add': '+', 'sub': '-', 'mul': '*', 'and': '&', 'or': '|', 'xor': '^'}[op]
            if op == 'mul' and w == 128 and n == 128: return 'VERIF_MUL128(%s, %s)' % (a, b)   # plain product unless the harness opts into -DVERIF_MUL128_NARROW (see prelude)
            return s.mask(n, '((%s)((%s)(%s) %s (%s)(%s)))' % (ct, big, a, c, big, b))
        if op == 'shl': return s.mask(n, '((%s)((%s)(%s) << (%s)))' % (ct, big, a, b))
        if op == 'lshr': return '((%s)((%s)(%s) >> (%s)))' % (ct, big, a, b)
        if op == 'ashr': return s.mask(n, '((%s)(%s >> (%s)))' % (ct, s.sx(n, a), b))
        if op == 'udiv': return '((%s)((%s) / (%s)))' % (ct, a, b)
        if op == 'urem': return '((%s)((%s) %% (%s)))' % (ct, a, b)
        if op == 'sdiv': return s.mask(n, '((%s)SDIV%d(%s, %s))' % (ct, 128 if w == 128 else 64, s.sx(n, a), s.sx(n, b)))
        if op == 'srem': return s.mask(n, '((%s)SREM%d(%s, %s))' % (ct, 128 if w == 128 else 64, s.sx(n, a), s.sx(n, b)))
        raise ValueError('binop ' + op)
    def icmp(s, pred, t, a, b):
        r = s.resolve(t)
        if isinstance(r, TPtr):
            c = {'eq': '==', 'ne': '!=', 'ult': '<', 'ule': '<=', 'ugt': '>', 'uge': '>='}[pred]
            if pred in ('eq', 'ne'): return '((uint8_t)((%s) %s (%s)))' % (a, c, b)
            return '((uint8_t)VERIF_PTRCMP(%s, %s, %s))' % (a, c, b)
        n = r.n
        if pred in ('eq', 'ne', 'ult', 'ule', 'ugt', 'uge'):
            c = {'eq': '==', 'ne': '!=', 'ult': '<', 'ule': '<=', 'ugt': '>', 'uge': '>='}[pred]
            return '((uint8_t)((%s) %s (%s)))' % (a, c, b)
        c = {'slt': '<', 'sle': '<=', 'sgt': '>', 'sge': '>='}[pred]
        return '((uint8_t)(%s %s %s))' % (s.sx(n, a), c, s.sx(n, b))
    def gep(s, sty, ops, fn, resty=None):
        base = ops[0]; idx = ops[1:]
        e = s.val(base, fn)
        cur = sty
        first = idx[0]
        fi = s.idxval(first, fn)
        # typed: &base[fi]....
        if isinstance(s.resolve(cur), (TVoid, TFunc)) or (isinstance(cur, TNamed) and s.m.types.get(cur.name) is None):
            raise ValueError('gep over opaque')
        expr = '(%s)[%s]' % (e, fi)
        for ix in idx[1:]:
            r = s.resolve(cur)
            if isinstance(r, TStruct):
                assert ix.kind == 'int', ix
                expr += '.f%d' % ix.val; cur = r.fields[ix.val]
            elif isinstance(r, (TArr, TVec)):
                expr += '.e[%s]' % s.idxval(ix, fn); cur = r.el
            else:
                raise ValueError('gep into %r' % (r,))
        out = '(&%s)' % expr
        if resty is not None:
            out = '((%s)%s)' % (s.ctype(resty), out)
        return out, cur
    def idxval(s, v, fn):
        if v.kind == 'int':
            n = v.ty.n; x = v.val & ((1 << n) - 1)
            if x >> (n - 1): x -= 1 << n
            return str(x)
        return '(int64_t)' + s.sx(s.resolve(v.ty).n, s.val(v, fn))

# ----------------------------------------------------------------------------- functions
NOUNWIND_EXT = {'malloc', 'free', 'realloc', 'calloc', 'memcmp', 'strlen', 'strnlen', 'memchr', 'abort', '__assert_fail', '__CPROVER_assume', '__CPROVER_assert'}

class FnCtx:
    def __init__(s, em, f):
        s.em = em; s.f = f; s.names = {}; s.decls = collections.OrderedDict(); s.used = set()
        s.code = []
        s.labels = {}
    def lname(s, name):
        if name not in s.names:
            raw = name[1:]
            if raw.startswith('"'): raw = raw[1:-1]
            c = 'v_' + re.sub(r'[^A-Za-z0-9_]', '_', raw)
            while c in s.used: c += '_'
            s.used.add(c); s.names[name] = c
        return s.names[name]
    def label(s, name):
        if name not in s.labels:
            raw = name[1:]
            if raw.startswith('"'): raw = raw[1:-1]
            s.labels[name] = 'L_' + re.sub(r'[^A-Za-z0-9_]', '_', raw) + '_%d' % len(s.labels)
        return s.labels[name]
    def declare(s, name, ty):
        s.decls[s.lname(name)] = ty

def split_top(p, stop=(',',)):
    pass

class FuncTranslator:
    def __init__(s, em, f):
        s.em = em; s.f = f; s.cx = FnCtx(em, f)
        s.phis = {}  # block -> list of (res, ty, [(val, pred)])
        s.insts = {}  # block -> parsed
        s.may_throw_cache = {}

    def parse_all(s):
        for b, lines in s.f.blocks.items():
            lst = []
            for ln in lines:
                lst.append(s.parse_inst(ln))
            s.insts[b] = lst

    def parse_inst(s, ln):
        toks = lex(ln); p = P(toks)
        res = None
        if p.peek()[0] == 'lid' and p.peek(1)[1] == '=':
            res = p.next()[1]; p.next()
        k, op = p.next()
        while op in ('tail', 'musttail', 'notail'):
            k, op = p.next()
        I = Inst(res, op, raw=ln)
        if op in BINOPS:
            fl = []
            while p.peek()[1] in ('nuw', 'nsw', 'exact', 'fast', 'nnan', 'ninf', 'nsz', 'arcp', 'contract', 'afn', 'reassoc'): fl.append(p.next()[1])
            t = p.ptype(); a = pvalue(p, t); p.expect(','); b = pvalue(p, t)
            I.ty = t; I.a = a; I.b = b; I.flags = fl
        elif op == 'fneg':
            while p.peek()[1] in ('fast', 'nnan', 'ninf', 'nsz', 'arcp', 'contract', 'afn', 'reassoc'): p.next()
            t = p.ptype(); I.ty = t; I.a = pvalue(p, t)
        elif op in CASTS:
            t = p.ptype(); x = pvalue(p, t); p.expect('to'); t2 = p.ptype()
            I.x = x; I.ty = t2
        elif op in ('icmp', 'fcmp'):
            while p.peek()[1] in ('fast', 'nnan', 'ninf', 'nsz', 'arcp', 'contract', 'afn', 'reassoc'): p.next()
            I.pred = p.next()[1]; t = p.ptype(); I.a = pvalue(p, t); p.expect(','); I.b = pvalue(p, t); I.ty = TInt(1)
        elif op == 'select':
            t = p.ptype(); I.c = pvalue(p, t); p.expect(','); t1 = p.ptype(); I.a = pvalue(p, t1); p.expect(','); t2 = p.ptype(); I.b = pvalue(p, t2); I.ty = t1
        elif op == 'phi':
            t = p.ptype(); I.ty = t; I.inc = []
            while True:
                p.expect('['); v = pvalue(p, t); p.expect(','); lab = p.next()[1]; p.expect(']')
                I.inc.append((v, lab))
                if not p.accept(','): break
        elif op == 'alloca':
            p.accept('inalloca'); t = p.ptype(); I.aty = t; I.n = None
            if p.accept(','):
                if p.peek()[1] != 'align':
                    t2 = p.ptype(); I.n = pvalue(p, t2)
            I.ty = TPtr(t)
        elif op == 'load':
            p.accept('atomic'); p.accept('volatile'); t = p.ptype(); p.expect(','); pt = p.ptype(); I.ptr = pvalue(p, pt); I.ty = t
        elif op == 'store':
            p.accept('atomic'); p.accept('volatile'); t = p.ptype(); I.v = pvalue(p, t); p.expect(','); pt = p.ptype(); I.ptr = pvalue(p, pt); I.ty = VOID
        elif op == 'getelementptr':
            p.accept('inbounds'); sty = p.ptype(); p.expect(','); ops = []
            while True:
                t = p.ptype(); ops.append(pvalue(p, t))
                if not p.accept(','): break
            I.sty = sty; I.ops = ops
        elif op in ('call', 'invoke'):
            while p.peek()[1] in LINKAGE or p.peek()[1] in ('fast', 'nnan', 'ninf', 'nsz', 'arcp', 'contract', 'afn', 'reassoc'): p.next()
            skip_param_attrs(p)
            rt = p.ptype()
            if isinstance(rt, TFunc): fty = rt; rt = fty.ret
            elif isinstance(rt, TPtr) and isinstance(rt.to, TFunc) and p.peek()[0] in ('lid', 'gid') and False: pass
            I.ty = rt
            if p.peek()[1] == 'asm':
                I.callee = None; I.args = []; I.asm = True
                return I
            I.callee = pvalue(p, None)
            p.expect('('); args = []
            if not p.accept(')'):
                while True:
                    t = p.ptype(); at = skip_param_attrs(p)
                    if isinstance(t, TOther) and t.k == 'metadata':
                        # metadata argument: skip tokens until , or ) at depth 0
                        p.next(); args.append(None)
                    else:
                        args.append(pvalue(p, t))
                    if p.accept(')'): break
                    p.expect(',')
            I.args = args
            if op == 'invoke':
                while p.peek()[1] != 'to': p.next()
                p.next(); p.expect('label'); I.ok = p.next()[1]; p.expect('unwind'); p.expect('label'); I.lp = p.next()[1]
        elif op == 'br':
            if p.accept('label'): I.targets = [p.next()[1]]; I.c = None
            else:
                t = p.ptype(); I.c = pvalue(p, t); p.expect(','); p.expect('label'); a = p.next()[1]; p.expect(','); p.expect('label'); b = p.next()[1]
                I.targets = [a, b]
        elif op == 'switch':
            t = p.ptype(); I.v = pvalue(p, t); p.expect(','); p.expect('label'); I.default = p.next()[1]; p.expect('['); I.cases = []
            while not p.accept(']'):
                t2 = p.ptype(); cv = pvalue(p, t2); p.expect(','); p.expect('label'); I.cases.append((cv, p.next()[1]))
        elif op == 'ret':
            t = p.ptype(); I.ty = t; I.v = None if isinstance(t, TVoid) else pvalue(p, t)
        elif op == 'unreachable':
            pass
        elif op == 'resume':
            t = p.ptype(); I.v = pvalue(p, t)
        elif op == 'landingpad':
            I.ty = p.ptype(); I.cleanup = False; I.clauses = []
            while not p.end():
                w = p.next()[1]
                if w == 'cleanup': I.cleanup = True
                elif w == 'catch': t = p.ptype(); I.clauses.append(('catch', pvalue(p, t)))
                elif w == 'filter': t = p.ptype(); I.clauses.append(('filter', pvalue(p, t)))
                else: break
        elif op == 'extractvalue':
            t = p.ptype(); I.agg = pvalue(p, t); I.idx = []
            while p.accept(','):
                if p.peek()[0] != 'num': break
                I.idx.append(int(p.next()[1]))
        elif op == 'insertvalue':
            t = p.ptype(); I.agg = pvalue(p, t); p.expect(','); t2 = p.ptype(); I.v = pvalue(p, t2); I.idx = []
            while p.accept(','):
                if p.peek()[0] != 'num': break
                I.idx.append(int(p.next()[1]))
            I.ty = t
        elif op == 'freeze':
            t = p.ptype(); I.x = pvalue(p, t); I.ty = t
        elif op == 'fence':
            pass
        elif op == 'atomicrmw':
            p.accept('volatile'); I.rmw = p.next()[1]; pt = p.ptype(); I.ptr = pvalue(p, pt); p.expect(','); t = p.ptype(); I.v = pvalue(p, t); I.ty = t
        elif op == 'cmpxchg':
            p.accept('weak'); p.accept('volatile'); pt = p.ptype(); I.ptr = pvalue(p, pt); p.expect(','); t = p.ptype(); I.cmp = pvalue(p, t); p.expect(','); t2 = p.ptype(); I.new = pvalue(p, t2)
            I.ty = TStruct([t, TInt(1)], False)
        else:
            raise SyntaxError('unsupported instruction %r in %r' % (op, ln[:120]))
        return I

    # -------------------------------------------------- emission
    def result_type(s, I):
        em = s.em
        if I.op in BINOPS or I.op in ('fneg', 'freeze') or I.op in CASTS or I.op in ('select', 'phi', 'load', 'insertvalue', 'landingpad', 'icmp', 'fcmp', 'alloca', 'atomicrmw', 'cmpxchg'):
            return I.ty
        if I.op in ('call', 'invoke'): return I.ty
        if I.op == 'getelementptr': return I.gty
        if I.op == 'extractvalue': return I.ety
        return None

    def gep_result(s, I):
        em = s.em
        cur = I.sty
        for ix in I.ops[2:]:
            r = em.resolve(cur)
            if isinstance(r, TStruct): cur = r.fields[ix.val]
            else: cur = r.el
        return TPtr(cur)

    def translate(s):
        em = s.em; f = s.f; cx = s.cx
        s.parse_all()
        s.defs = {}
        s.uses_bitcast = {}
        for b, lst in s.insts.items():
            for I in lst:
                if I.res is not None: s.defs[I.res] = I
                if I.op == 'bitcast' and I.x.kind == 'local':
                    s.uses_bitcast.setdefault(I.x.name, []).append(I)
        # types of results
        for b, lst in s.insts.items():
            for I in lst:
                if I.op == 'getelementptr': I.gty = s.gep_result(I)
                if I.op == 'extractvalue':
                    cur = I.agg.ty
                    for ix in I.idx:
                        r = em.resolve(cur); cur = r.fields[ix] if isinstance(r, TStruct) else r.el
                    I.ety = cur
                if I.res is not None:
                    cx.declare(I.res, s.result_type(I))
        body = []
        first = True
        for b in s.block_order():
            lst = s.insts[b]
            body.append('%s: ;' % cx.label(b))
            for I in lst:
                s.emit_inst(b, I, body)
        # header
        ps = ', '.join('%s %s' % (em.ctype(t), cx.lname(nm)) for t, nm in f.params) or 'void'
        if f.va and f.params: ps += ', ...'   # defined variadic function that ignores its variadic part (e.g. allocator_traits::_S_destroy(a, p, ...)): match the prototype
        hdr = '%s %s(%s)' % (em.ctype(f.ret), em.cname(f.name, 'g'), ps)
        out = [hdr + ' {']
        for i, (t, nm) in enumerate(f.params):
            at = f.pattrs[i]
            if 'byval' in at:
                bt = at['byval']
                out.append('  %s byval_%d = *%s; %s = &byval_%d;' % (em.ctype(bt), i, cx.lname(nm), cx.lname(nm), i))
        for c, t in cx.decls.items():
            if isinstance(t, TVoid) or t is None: continue
            out.append('  %s %s;' % (em.ctype(t), c))
        out.extend('  ' + x for x in body)
        out.append('}')
        return hdr, '\n'.join(out)

    def block_order(s):
        """Emission order of basic blocks. Normally the IR order. CBMC treats EVERY textually backward goto as a loop back-edge; when
        clang lays out a loop latch before part of the loop body (`continue` inside a loop: body -> latch is then a backward goto that
        is not a back-edge), CBMC sees two overlapping loops and reports spurious unwinding-assertion failures. Only for such functions
        the blocks are emitted in reverse post-order, where the backward gotos are exactly the CFG's retreating edges."""
        names = list(s.insts.keys())
        if len(names) < 3: return names
        succ = {}
        for b in names:
            raw = s.f.blocks[b][-1] if s.f.blocks[b] else ''
            succ[b] = [x for x in re.findall(r'label (%(?:"[^"]*"|[-A-Za-z0-9_.$]+))', raw) if x in s.insts]
        pos = {b: i for i, b in enumerate(names)}
        state = {}; post = []; retreating = set()
        stack = [(names[0], iter(succ[names[0]]))]; state[names[0]] = 1
        while stack:
            b, it = stack[-1]
            for c in it:
                if c not in state:
                    state[c] = 1; stack.append((c, iter(succ[c]))); break
                if state[c] == 1: retreating.add((b, c))
            else:
                state[b] = 2; post.append(b); stack.pop()
        bad = any(pos[c] <= pos[b] and (b, c) not in retreating for b in names if b in state for c in succ[b])
        if not bad: return names
        rpo = post[::-1]
        return rpo + [b for b in names if b not in state]

    def phi_moves(s, frm, to):
        em = s.em; cx = s.cx
        moves = []
        for I in s.insts[to]:
            if I.op != 'phi': break
            for v, lab in I.inc:
                if lab == frm:
                    moves.append((cx.lname(I.res), I.ty, em.val(v, cx))); break
        if not moves: return ''
        if len(moves) == 1: return '%s = %s; ' % (moves[0][0], moves[0][2])
        a = ''.join('%s t%d_ = %s; ' % (em.ctype(t), i, e) for i, (n, t, e) in enumerate(moves))
        b = ''.join('%s = t%d_; ' % (n, i) for i, (n, t, e) in enumerate(moves))
        return '{ ' + a + b + '} '

    def goto(s, frm, to):
        return s.phi_moves(frm, to) + 'goto %s;' % s.cx.label(to)

    def zero_ret(s):
        t = s.f.ret
        if isinstance(t, TVoid): return 'return;'
        return 'return %s;' % s.em.zero_of(t)

    def emit_inst(s, b, I, out):
        em = s.em; cx = s.cx
        V_ = lambda v: em.val(v, cx)
        R = cx.lname(I.res) if I.res else None
        op = I.op
        if op == 'phi': return
        if op == 'sub':
            pa = s.ptr_of_int(I.a); pb = s.ptr_of_int(I.b)
            if pa is not None and pb is not None:
                out.append('%s = %s;' % (R, em.mask(em.resolve(I.ty).n, '((%s)VERIF_PTRDIFF(%s, %s))' % (em.ctype(I.ty), V_(pa), V_(pb))))); return
        if op == 'sub':
            rm = s.rem_of_divmul(I)   # x - (x / d) * d (LLVM DivRemPairs decomposition of a remainder) is emitted as x % d again: same value, linear for integer back ends
            if rm is not None:
                out.append('%s = %s;' % (R, em.binop(rm[0], I.ty, V_(rm[1]), V_(rm[2])))); return
        if op in BINOPS:
            out.append('%s = %s;' % (R, em.binop(op, I.ty, V_(I.a), V_(I.b)))); return
        if op == 'fneg': out.append('%s = -(%s);' % (R, V_(I.a))); return
        if op in CASTS:
            out.append('%s = %s;' % (R, em.cast(op, I.x.ty, I.ty, V_(I.x)))); return
        if op == 'icmp':
            out.append('%s = %s;' % (R, em.icmp(I.pred, I.a.ty, V_(I.a), V_(I.b)))); return
        if op == 'fcmp':
            c = {'oeq': '==', 'one': '!=', 'olt': '<', 'ole': '<=', 'ogt': '>', 'oge': '>=', 'ueq': '==', 'une': '!=', 'ult': '<', 'ule': '<=', 'ugt': '>', 'uge': '>='}[I.pred]
            out.append('%s = (uint8_t)((%s) %s (%s));' % (R, V_(I.a), c, V_(I.b))); return
        if op == 'select':
            out.append('%s = (%s) ? (%s) : (%s);' % (R, V_(I.c), V_(I.a), V_(I.b))); return
        if op == 'freeze': out.append('%s = %s;' % (R, V_(I.x))); return
        if op == 'alloca':
            if I.n is not None and not (I.n.kind == 'int' and I.n.val == 1):
                if I.n.kind == 'int':
                    out.append('static_assert_dummy: ;') if False else None
                    nm = R + '_mem'
                    cx.decls[nm + '[%d]' % I.n.val] = I.aty
                    out.append('%s = %s;' % (R, nm)); return
                raise ValueError('dynamic alloca')
            nm = R + '_mem'
            cx.decls[nm] = I.aty
            out.append('%s = &%s;' % (R, nm)); return
        def L_(v, ty):
            # opt-in (opts['inline_gep']): a load/store through a getelementptr with a non-constant index is emitted as the element lvalue itself
            # (`base[i].f = x` instead of `p = &base[i].f; *p = x`): CBMC then sees an array-element access (a `with` on element i) instead of a
            # pointer variable with unknown offset, whose dereference is a byte_update of the whole object. Valid because GEP operands are SSA values.
            if em.opts.get('inline_gep') and v.kind == 'local' and v.name in s.defs:
                D = s.defs[v.name]
                if D.op == 'getelementptr' and any(x.kind != 'int' for x in D.ops[1:]):
                    try:
                        e, cur = em.gep(D.sty, D.ops, cx)
                        if e.startswith('(&') and e.endswith(')') and em.ctype(cur) == em.ctype(ty) and not isinstance(em.resolve(cur), (TStruct, TArr, TVec)):
                            return e[2:-1]
                    except Exception:
                        pass
            return '*(%s)' % V_(v)
        if op == 'load':
            r = em.resolve(I.ty)
            if isinstance(r, TInt) and r.n not in (8, 16, 32, 64, 128):
                out.append('%s = 0; memcpy(&%s, %s, %d); %s = %s;' % (R, R, V_(I.ptr), (r.n + 7) // 8, R, em.mask(r.n, R))); return
            out.append('%s = %s;' % (R, L_(I.ptr, I.ty))); return
        if op == 'store':
            r = em.resolve(I.v.ty)
            if isinstance(r, TInt) and r.n not in (8, 16, 32, 64, 128):
                out.append('{ %s tmp_ = %s; memcpy(%s, &tmp_, %d); }' % (em.ctype(I.v.ty), V_(I.v), V_(I.ptr), (r.n + 7) // 8)); return
            out.append('%s = %s;' % (L_(I.ptr, I.v.ty), V_(I.v))); return
        if op == 'getelementptr':
            e, _ = em.gep(I.sty, I.ops, cx)
            out.append('%s = (%s)%s;' % (R, em.ctype(I.gty), e)); return
        if op == 'extractvalue':
            e = V_(I.agg); cur = I.agg.ty
            for ix in I.idx:
                r = em.resolve(cur)
                if isinstance(r, TStruct): e += '.f%d' % ix; cur = r.fields[ix]
                else: e += '.e[%d]' % ix; cur = r.el
            out.append('%s = %s;' % (R, e)); return
        if op == 'insertvalue':
            out.append('%s = %s;' % (R, V_(I.agg)))
            e = R; cur = I.agg.ty
            for ix in I.idx:
                r = em.resolve(cur)
                if isinstance(r, TStruct): e += '.f%d' % ix; cur = r.fields[ix]
                else: e += '.e[%d]' % ix; cur = r.el
            out.append('%s = %s;' % (e, V_(I.v))); return
        if op == 'fence': return
        if op == 'atomicrmw':
            p_ = V_(I.ptr); v = V_(I.v)
            out.append('%s = *(%s);' % (R, p_))
            if I.rmw == 'xchg': new = v
            elif I.rmw in ('add', 'sub', 'and', 'or', 'xor'): new = em.binop(I.rmw, I.ty, R, v)
            else: raise ValueError('atomicrmw ' + I.rmw)
            out.append('*(%s) = %s;' % (p_, new)); return
        if op == 'cmpxchg':
            p_ = V_(I.ptr)
            out.append('%s.f0 = *(%s); %s.f1 = (%s.f0 == (%s)); if (%s.f1) *(%s) = %s;' % (R, p_, R, R, V_(I.cmp), R, p_, V_(I.new))); return
        if op == 'br':
            if I.c is None: out.append(s.goto(b, I.targets[0]))
            else: out.append('if (%s) { %s } else { %s }' % (V_(I.c), s.goto(b, I.targets[0]), s.goto(b, I.targets[1])))
            return
        if op == 'switch':
            out.append('switch (%s) {' % V_(I.v))
            for cv, lab in I.cases:
                out.append('  case %s: { %s }' % (V_(cv), s.goto(b, lab)))
            out.append('  default: { %s } }' % s.goto(b, I.default)); return
        if op == 'ret':
            out.append('return;' if I.v is None else 'return %s;' % V_(I.v)); return
        if op == 'unreachable':
            out.append('if (verif_exc_pending) { %s } VERIF_UNREACHABLE(); %s' % (s.zero_ret(), s.zero_ret())); return
        if op == 'resume':
            out.append('verif_exc_pending = 1; %s' % s.zero_ret()); return
        if op == 'landingpad':
            # selector computation
            sel = ['0']
            conds = []
            for kind, v in I.clauses:
                if kind == 'catch':
                    if v.kind == 'null': conds.append(('1', 'verif_typeid_for(0)'))
                    else: conds.append(('verif_exc_matches((void*)%s)' % V_(v), 'verif_typeid_for((void*)%s)' % V_(v)))
            e = '0'
            for c, idv in reversed(conds):
                e = '(%s) ? %s : (%s)' % (c, idv, e)
            out.append('verif_exc_pending = 0; %s.f0 = (uint8_t*)verif_exc_obj; %s.f1 = (uint32_t)(%s);' % (R, R, e)); return
        if op in ('call', 'invoke'):
            s.emit_call(b, I, out); return
        raise ValueError('emit ' + op)

    def emit_call(s, b, I, out):
        em = s.em; cx = s.cx
        V_ = lambda v: em.val(v, cx)
        R = cx.lname(I.res) if I.res else None
        if getattr(I, 'asm', False):
            out.append('/* inline asm skipped */')
            if I.op == 'invoke': out.append(s.goto(b, I.ok))
            return
        cal = I.callee
        name = cal.name if cal.kind == 'global' else None
        args = [a for a in I.args]
        handled = False
        if name and name.startswith('@llvm.'):
            handled = s.emit_intrinsic(name, I, args, out)
            if handled:
                if I.op == 'invoke': out.append(s.goto(b, I.ok))
                return
            raise ValueError('unsupported intrinsic ' + name)
        if name == '@__CPROVER_assert':
            v = args[1]
            while v.kind in ('cgep', 'ccast'): v = v.ops[0] if v.kind == 'cgep' else v.x
            msg = 'assertion'
            if v.kind == 'global' and v.name in em.m.globals and em.m.globals[v.name][1] is not None and em.m.globals[v.name][1].kind == 'bytes':
                msg = em.m.globals[v.name][1].data.rstrip(b'\0').decode('latin1').replace('\\', '/').replace('"', "'")
            out.append('__CPROVER_assert(%s, "%s");' % (V_(args[0]), msg))
            if I.op == 'invoke': out.append(s.goto(b, I.ok))
            return
        if name is not None:
            tgt = name
            if tgt in em.m.aliases and em.m.aliases[tgt].kind == 'global': tgt = em.m.aliases[tgt].name
            fdef = em.m.funcs.get(tgt)
            cf = em.cname(tgt, 'g')
            if fdef is not None:
                if not fdef.defined: em.externs_used.add(tgt)
                # cast args to declared param types (pointer type mismatches through bitcast-free calls)
                al = []
                ty = em.ctype if fdef.defined else em.gtype
                for i, a in enumerate(args):
                    e = V_(a)
                    if i < len(fdef.params):
                        e = '(%s)(%s)' % (ty(fdef.params[i][0]), e) if isinstance(em.resolve(a.ty), TPtr) else e
                    al.append(e)
                callexpr = '%s(%s)' % (cf, ', '.join(al))
                if not fdef.defined and isinstance(em.resolve(I.ty), TPtr):
                    callexpr = '((%s)%s)' % (em.ctype(I.ty), callexpr)
            else:
                raise ValueError('call to unknown ' + name)
        else:
            # indirect
            fty = TFunc(I.ty, [a.ty for a in args], False)
            callexpr = '((%s)%s)(%s)' % (em.fnptr_ctype(fty), V_(cal), ', '.join(V_(a) for a in args))
        if name in ('@_Znwm', '@_Znam', '@malloc') and I.res in s.uses_bitcast:
            T = None; best = -1
            want = args[0].val if args[0].kind == 'int' else None
            for U in s.uses_bitcast[I.res]:
                t = em.resolve(U.ty)
                if isinstance(t, TPtr) and not isinstance(em.resolve(t.to), (TFunc, TVoid)) and not (isinstance(em.resolve(t.to), TInt) and em.resolve(t.to).n == 8) and not (isinstance(t.to, TNamed) and em.m.types.get(t.to.name) is None):
                    try: z = em.size_align(t.to)[0]
                    except Exception: continue
                    # prefer the type whose size is the allocation size, otherwise the largest one (a node is also cast to its base class)
                    score = (1 << 40) if (want is not None and z == want) else z
                    if want is not None and z > want: continue
                    if score > best: best = score; T = t.to
            if T is not None:
                sz = em.size_align(T)[0]
                if sz > 0:
                    if args[0].kind == 'int':
                        callexpr = '((uint8_t*)verif_alloc_check(malloc(sizeof(%s) * ((uint64_t)(%s) / %d))))' % (em.ctype(T), V_(args[0]), sz)
                    else:   # non-constant element count (vector growth after a path merge): see VERIF_TALLOC in the prelude
                        callexpr = '((uint8_t*)verif_alloc_check(VERIF_TALLOC(%s, ((uint64_t)(%s) / %d))))' % (em.ctype(T), V_(args[0]), sz)
        if R and not isinstance(I.ty, TVoid):
            out.append('%s = %s;' % (R, callexpr))
        else:
            out.append('%s;' % callexpr)
        nounwind = name is not None and (name[1:] in NOUNWIND_EXT)
        if I.op == 'invoke':
            out.append('if (verif_exc_pending) { %s } else { %s }' % (s.goto(b, I.lp), s.goto(b, I.ok)))
        elif not nounwind and 'nounwind_attr' not in I.raw:
            out.append('if (verif_exc_pending) { %s }' % s.zero_ret())

    def origin(s, v):
        """pointee type of an i8* value that is a bitcast of a typed pointer (within this function)"""
        em = s.em
        seen = 0
        while seen < 4:
            seen += 1
            if v.kind == 'ccast' and v.op == 'bitcast':
                v = v.x; t = em.resolve(v.ty)
                if isinstance(t, TPtr) and not (isinstance(em.resolve(t.to), TInt) and em.resolve(t.to).n == 8): return t.to
                continue
            if v.kind == 'local' and v.name in s.defs:
                D = s.defs[v.name]
                if D.op == 'bitcast':
                    t = em.resolve(D.x.ty)
                    if isinstance(t, TPtr):
                        to = em.resolve(t.to)
                        if not (isinstance(to, TInt) and to.n == 8) and not isinstance(to, (TFunc, TVoid)) and not (isinstance(t.to, TNamed) and em.m.types.get(t.to.name) is None):
                            return t.to
                    v = D.x; continue
                if D.op == 'load':
                    # i8* loaded through a bitcast of T*** (e.g. unordered_map::clear(): memset of the bucket array): the loaded value is a T**
                    a = D.ptr; at = None
                    if a.kind == 'ccast' and a.op == 'bitcast': at = a.x.ty
                    elif a.kind == 'local' and a.name in s.defs and s.defs[a.name].op == 'bitcast': at = s.defs[a.name].x.ty
                    t = em.resolve(at) if at is not None else None
                    if isinstance(t, TPtr):
                        t2 = em.resolve(t.to)
                        if isinstance(t2, TPtr):
                            to = em.resolve(t2.to)
                            if not (isinstance(to, TInt) and to.n == 8) and not isinstance(to, (TFunc, TVoid)) and not (isinstance(t2.to, TNamed) and em.m.types.get(t2.to.name) is None):
                                return t2.to
                    break
                if D.op in ('call', 'invoke') and v.name in s.uses_bitcast:
                    # raw i8* returned by an allocation and also used through a typed bitcast (e.g. bucket array: new + memset)
                    for U in s.uses_bitcast[v.name]:
                        t = em.resolve(U.ty)
                        if isinstance(t, TPtr):
                            to = em.resolve(t.to)
                            if not (isinstance(to, TInt) and to.n == 8) and not isinstance(to, (TFunc, TVoid)) and not (isinstance(t.to, TNamed) and em.m.types.get(t.to.name) is None):
                                return t.to
            break
        return None

    def rem_of_divmul(s, I):
        def same(u, v):
            return u.kind == v.kind and ((u.kind == 'local' and u.name == v.name) or (u.kind == 'int' and u.val == v.val))
        M = s.defs.get(I.b.name) if I.b.kind == 'local' else None
        if M is None or M.op != 'mul': return None
        for q, d in ((M.a, M.b), (M.b, M.a)):
            Q = s.defs.get(q.name) if q.kind == 'local' else None
            if Q is not None and Q.op in ('sdiv', 'udiv') and same(Q.a, I.a) and same(Q.b, d):
                return ({'sdiv': 'srem', 'udiv': 'urem'}[Q.op], I.a, d)
        return None

    def ptr_of_int(s, v):
        if v.kind == 'ccast' and v.op == 'ptrtoint': return v.x
        if v.kind == 'local' and v.name in s.defs and s.defs[v.name].op == 'ptrtoint': return s.defs[v.name].x
        return None

    def typed_base(s, v):
        """(base value V of pointer-to-aggregate type, pointee type T, const byte offset) or None"""
        em = s.em; off = 0; best = None
        def qualifies(v):
            t = em.resolve(v.ty) if v.ty is not None else None
            if isinstance(t, TPtr):
                to = em.resolve(t.to)
                if isinstance(to, (TStruct, TArr)) or (isinstance(to, (TInt, TPtr, TFloat)) and not (isinstance(to, TInt) and to.n == 8)):
                    if not (isinstance(t.to, TNamed) and em.m.types.get(t.to.name) is None):
                        return t.to
            return None
        for _ in range(16):
            q = qualifies(v)
            if q is not None: best = (v, q, off)
            D = s.defs.get(v.name) if v.kind == 'local' else None
            op = D.op if D else ({'ccast': getattr(v, 'op', None), 'cgep': 'getelementptr'}.get(v.kind))
            if op == 'bitcast':
                v = D.x if D else v.x; continue
            if op == 'getelementptr':
                sty = D.sty if D else v.sty; ops = D.ops if D else v.ops
                if not all(o.kind == 'int' for o in ops[1:]): break
                try:
                    i0 = ops[1].val
                    cur = sty; o = i0 * em.size_align(sty)[0]
                    for ix in ops[2:]:
                        r = em.resolve(cur)
                        if isinstance(r, TStruct): o += em.field_offsets(r)[0][ix.val]; cur = r.fields[ix.val]
                        else: o += ix.val * em.size_align(r.el)[0]; cur = r.el
                except Exception:
                    break
                if o < 0: break
                off += o; v = ops[0]; continue
            break
        return best

    def path_for(s, T, off, size, want_ct):
        """C member path ('.f2.f0', '.e[3]') of the scalar / byte-array member of T at byte offset off with the given size and C type, or None"""
        em = s.em; path = ''
        for _ in range(24):
            r = em.resolve(T)
            try: tsz = em.size_align(T)[0]
            except Exception: return None
            if off == 0 and tsz == size and em.ctype(T) == want_ct and not isinstance(r, TStruct): return path
            if isinstance(r, TStruct):
                offs, _t = em.field_offsets(r); hit = None
                for i, (f, o) in enumerate(zip(r.fields, offs)):
                    fs = em.size_align(f)[0]
                    if o <= off and off + size <= o + fs and fs > 0: hit = (i, f, o)
                if hit is None: return None
                path += '.f%d' % hit[0]; T = hit[1]; off -= hit[2]; continue
            if isinstance(r, (TArr, TVec)):
                esz = em.size_align(r.el)[0]
                if esz == 0: return None
                k = off // esz
                if k >= max(r.n, 1) or off + size > (k + 1) * esz:
                    return None
                path += '.e[%d]' % k; T = r.el; off -= k * esz; continue
            return None
        return None

    def leaves(s, T, base=0, acc=None, limit=400):
        em = s.em
        if acc is None: acc = []
        r = em.resolve(T)
        if len(acc) > limit: raise ValueError('too many leaves')
        if isinstance(r, TStruct):
            offs, _ = em.field_offsets(r)
            for f, o in zip(r.fields, offs): s.leaves(f, base + o, acc, limit)
        elif isinstance(r, (TArr, TVec)):
            el = em.resolve(r.el); esz = em.size_align(r.el)[0]
            if isinstance(el, TInt) and el.n == 8:
                if r.n: acc.append((base, r.n, 'bytes'))
            else:
                for i in range(r.n): s.leaves(r.el, base + i * esz, acc, limit)
        else:
            acc.append((base, em.size_align(T)[0], T))
        return acc

    def typed_mem(s, kind, args, out):
        em = s.em; cx = s.cx
        V_ = lambda v: em.val(v, cx)
        d = args[0]; n = args[2]
        if n.kind != 'int': 
            # symbolic length: element loop if element type known and not bytes
            T = s.origin(d) or (s.origin(args[1]) if kind != 'memset' else None)
            if T is None: return False
            r = em.resolve(T)
            if isinstance(r, TArr): return False
            sz = em.size_align(T)[0]; ct = em.ctype(T)
            if sz == 0: return False
            ND = s.defs.get(n.name) if n.kind == 'local' else None
            known_multiple = ND is not None and ((ND.op == 'shl' and ND.b.kind == 'int' and 0 <= ND.b.val < 64 and (1 << ND.b.val) % sz == 0) or
                                                 (ND.op == 'mul' and sz & (sz - 1) == 0 and any(o.kind == 'int' and o.val % sz == 0 for o in (ND.a, ND.b))))
            if known_multiple:
                pass   # length is syntactically `x << k` / `x * c` with sz | 2^k resp. sz | c (e.g. count * sizeof(T)): no byte-wise fallback, no check needed
            elif isinstance(r, TInt) and kind != 'memset':
                # scalar integer element (e.g. memcpy(&word, p, len) with len < sizeof(word), util/obfuscation.h XorWord): a length that is
                # not a multiple of the element size is legal; copy bytes in that case instead of asserting the translator assumption
                fn = 'll_memmove' if kind == 'memmove' else 'll_memcpy'
                out.append('if ((%s) %% %d != 0) { %s((uint8_t*)%s, (uint8_t*)%s, %s); } else' % (V_(n), sz, fn, V_(d), V_(args[1]), V_(n)))
            elif kind != 'memset' and isinstance(r, TStruct):
                # struct/union element (e.g. the 16-byte SSO buffer union of std::string, copied with length size()+1 by the move constructor):
                # a length that is not a multiple of the element size is a plain byte copy (previously a failing translator check)
                fn = 'll_memmove' if kind == 'memmove' else 'll_memcpy'
                out.append('if ((%s) %% %d != 0) { %s((uint8_t*)%s, (uint8_t*)%s, %s); } else' % (V_(n), sz, fn, V_(d), V_(args[1]), V_(n)))
            else:
                out.append('VERIF_XLATE_CHECK((%s) %% %d == 0);' % (V_(n), sz))
            if kind == 'memset':
                if not (args[1].kind == 'int' and args[1].val == 0): return False
                out.append('{ %s* d_ = (%s*)%s; uint64_t n_ = (%s) / %d; for (uint64_t i_ = 0; i_ < n_; i_++) d_[i_] = (%s)%s; }' % (ct, ct, V_(d), V_(n), sz, ct, '{0}' if isinstance(r, TStruct) else '0')); return True
            out.append('{ %s* d_ = (%s*)%s; %s* s_ = (%s*)%s; uint64_t n_ = (%s) / %d; if (VERIF_PTRCMP(d_, <=, s_)) { for (uint64_t i_ = 0; i_ < n_; i_++) d_[i_] = s_[i_]; } else { for (uint64_t i_ = n_; i_ > 0; i_--) d_[i_-1] = s_[i_-1]; } }' % (ct, ct, V_(d), ct, ct, V_(args[1]), V_(n), sz))
            return True
        N = n.val
        if N == 0: return True
        tbd = s.typed_base(d); tbs = s.typed_base(args[1]) if kind != 'memset' else None
        tb = tbd or tbs
        if tb is None: return False
        if kind == 'memset' and not (args[1].kind == 'int'): return False
        base, T, off = tb
        try:
            tsz = em.size_align(T)[0]
            lv = s.leaves(T)
        except Exception:
            return False
        if tsz == 0: return False
        # replicate leaves for arrays of T when the range exceeds one element
        reps = (off + N + tsz - 1) // tsz
        if reps > 64: return False
        allv = []
        for k in range(reps):
            for (o, l, t) in lv: allv.append((o + k * tsz, l, t))
        stmts = []
        dexp = '((uint8_t*)%s)' % V_(d); sexp = '((uint8_t*)%s)' % V_(args[1]) if kind != 'memset' else None
        covered = 0
        def lv(tbx, pexp, rel, ln, ct):
            # member-path lvalue through the typed base when the member lines up exactly (keeps CBMC's field-sensitive constant
            # propagation; a cast of a byte pointer + offset that crosses member boundaries would become a byte_update of the whole object)
            if tbx is not None:
                bx, Tx, ox = tbx
                try:
                    zx = em.size_align(Tx)[0]
                    if zx > 0:
                        k = (ox + rel) // zx; inner = (ox + rel) % zx
                        pth = s.path_for(Tx, inner, ln, ct)
                        # go through a scalar pointer temporary (exactly like an ordinary GEP result): dereferencing the *struct* pointer
                        # itself makes CBMC fall back to an unconstrained object when the pointee is a type-punned global reached
                        # with a symbolic index (seen with constant-initialised literal-struct globals)
                        if pth is not None and em.opts.get('inline_gep'): return '(%s)[%d]%s' % (V_(bx), k, pth)   # opt-in: plain member lvalue (struct-typed dereference -> array-element access when the pointer offset is symbolic)
                        if pth is not None: return '(*({ %s* p_ = &(%s)[%d]%s; p_; }))' % (ct, V_(bx), k, pth)
                except Exception:
                    pass
            return '*(%s*)(%s + %d)' % (ct, pexp, rel)
        for (o, l, t) in allv:
            lo = max(o, off); hi = min(o + l, off + N)
            if lo >= hi: continue
            rel = lo - off
            if t == 'bytes':
                ln = hi - lo
                bt = 'struct %s' % em.lit_struct(TArr(ln, TInt(8)))
                if kind == 'memset':
                    c = args[1].val & 255
                    if c == 0: stmts.append('%s = (%s){0};' % (lv(tbd, dexp, rel, ln, bt), bt))
                    else: stmts.append('for (int i_ = 0; i_ < %d; i_++) (%s + %d)[i_] = %d;' % (ln, dexp, rel, c))
                else:
                    stmts.append('{ %s t_ = %s; %s = t_; }' % (bt, lv(tbs, sexp, rel, ln, bt), lv(tbd, dexp, rel, ln, bt)))
            else:
                if lo != o or hi != o + l: return False  # scalar partially covered
                ct = em.ctype(t)
                if kind == 'memset':
                    if args[1].val != 0:
                        r = em.resolve(t)
                        if not isinstance(r, TInt): return False
                        val = int.from_bytes(bytes([args[1].val & 255]) * l, 'little')
                        stmts.append('%s = %s;' % (lv(tbd, dexp, rel, l, ct), em.intlit(r.n, val)))
                    else:
                        stmts.append('%s = 0;' % lv(tbd, dexp, rel, l, ct))
                else:
                    stmts.append('{ %s t_ = %s; %s = t_; }' % (ct, lv(tbs, sexp, rel, l, ct), lv(tbd, dexp, rel, l, ct)))
        if kind == 'memmove' and len(stmts) > 1:
            return False
        out.append('{ ' + ' '.join(stmts) + ' }')
        return True

    def emit_intrinsic(s, name, I, args, out):
        em = s.em; cx = s.cx
        V_ = lambda v: em.val(v, cx)
        R = cx.lname(I.res) if I.res else None
        base = name[6:]
        if base.startswith(('memcpy.', 'memmove.', 'memset.')) and s.typed_mem(base.split('.')[0], args, out): return True
        if base.startswith(('lifetime.', 'experimental.noalias', 'assume', 'dbg.', 'invariant.', 'prefetch', 'donothing', 'var.annotation')): return True
        if base.startswith('memcpy.') or base.startswith('memmove.'):
            fn = 'll_memcpy' if base.startswith('memcpy') else 'll_memmove'
            out.append('%s((uint8_t*)%s, (uint8_t*)%s, %s);' % (fn, V_(args[0]), V_(args[1]), V_(args[2]))); return True
        if base.startswith('memset.'):
            out.append('ll_memset((uint8_t*)%s, %s, %s);' % (V_(args[0]), V_(args[1]), V_(args[2]))); return True
        if base.startswith('expect.'): out.append('%s = %s;' % (R, V_(args[0]))); return True
        if base.startswith('is.constant'): out.append('%s = 0;' % R); return True
        if base.startswith('objectsize'): out.append('%s = %s;' % (R, em.intlit(I.ty.n, -1 if args[1].val == 0 else 0))); return True
        if base.startswith('eh.typeid.for'): out.append('%s = (uint32_t)verif_typeid_for((void*)%s);' % (R, V_(args[0]))); return True
        m = re.match(r'(u|s)(add|sub|mul)\.with\.overflow\.i(\d+)', base)
        if m:
            n = int(m.group(3)); sg = m.group(1); o = m.group(2)
            a = V_(args[0]); b_ = V_(args[1])
            if n > 64:
                if n != 128: raise ValueError('overflow intrinsic i%d' % n)
                U = 'unsigned __int128'; S = '__int128'
                if sg == 'u':
                    if o == 'add': out.append('{ %s a_ = %s, b_ = %s; %s.f0 = a_ + b_; %s.f1 = (uint8_t)(%s.f0 < a_); }' % (U, a, b_, R, R, R))
                    elif o == 'sub': out.append('{ %s a_ = %s, b_ = %s; %s.f0 = a_ - b_; %s.f1 = (uint8_t)(a_ < b_); }' % (U, a, b_, R, R))
                    else: out.append('{ %s a_ = %s, b_ = %s; %s.f0 = a_ * b_; %s.f1 = (uint8_t)(a_ != 0 && %s.f0 / a_ != b_); }' % (U, a, b_, R, R, R))
                else:
                    if o == 'add': out.append('{ %s a_ = %s, b_ = %s; %s r_ = a_ + b_; %s.f0 = r_; %s.f1 = (uint8_t)((((a_ ^ r_) & (b_ ^ r_)) >> 127) & 1); }' % (U, a, b_, U, R, R))
                    elif o == 'sub': out.append('{ %s a_ = %s, b_ = %s; %s r_ = a_ - b_; %s.f0 = r_; %s.f1 = (uint8_t)((((a_ ^ b_) & (a_ ^ r_)) >> 127) & 1); }' % (U, a, b_, U, R, R))
                    else: out.append('{ %s a_ = %s, b_ = %s; %s r_ = a_ * b_; %s.f0 = r_; %s m_ = ((%s)1) << 127; %s.f1 = (uint8_t)(a_ != 0 && (((%s)r_ / (%s)a_ != (%s)b_) || (a_ == ~(%s)0 && b_ == m_))); }' % (U, a, b_, U, R, U, U, R, S, S, S, U))
                return True
            wide = 'unsigned __int128' if sg == 'u' else '__int128'
            ea = '(%s)%s' % (wide, a) if sg == 'u' else '(%s)%s' % (wide, em.sx(n, a))
            eb = '(%s)%s' % (wide, b_) if sg == 'u' else '(%s)%s' % (wide, em.sx(n, b_))
            c = {'add': '+', 'sub': '-', 'mul': '*'}[o]
            out.append('{ %s w_ = (%s) %s (%s); %s.f0 = %s; %s.f1 = (uint8_t)(%s); }' % (
                wide, ea, c, eb, R, em.mask(n, '(%s)w_' % em.int_ctype(n)), R,
                ('w_ != (%s)(%s)w_' % (wide, em.int_ctype(n))) if sg == 'u' and n in (8, 16, 32, 64) else
                ('w_ != (%s)(%s)w_' % (wide, em.sint_ctype(n))) if n in (8, 16, 32, 64) else 'VERIF_UNSUPPORTED()'))
            return True
        m = re.match(r'(umin|umax|smin|smax)\.i(\d+)', base)
        if m:
            n = int(m.group(2)); k = m.group(1); a = V_(args[0]); b_ = V_(args[1])
            if k[0] == 'u': cmp = '(%s) %s (%s)' % (a, '<' if k == 'umin' else '>', b_)
            else: cmp = '%s %s %s' % (em.sx(n, a), '<' if k == 'smin' else '>', em.sx(n, b_))
            out.append('%s = (%s) ? (%s) : (%s);' % (R, cmp, a, b_)); return True
        m = re.match(r'(uadd|usub)\.sat\.i(\d+)', base)
        if m and int(m.group(2)) <= 64:
            # unsigned saturating add/sub (LLVM emits them for clamped trip counts): computed in 128 bits
            n = int(m.group(2)); k = m.group(1); a = V_(args[0]); b_ = V_(args[1])
            if k == 'usub': out.append('%s = ((%s) > (%s)) ? %s : 0;' % (R, a, b_, em.mask(n, '(%s)((%s) - (%s))' % (em.int_ctype(n), a, b_))))
            else: out.append('{ unsigned __int128 w_ = (unsigned __int128)(%s) + (unsigned __int128)(%s); unsigned __int128 m_ = (((unsigned __int128)1) << %d) - 1; %s = (%s)(w_ > m_ ? m_ : w_); }' % (a, b_, n, R, em.int_ctype(n)))
            return True
        m = re.match(r'abs\.i(\d+)', base)
        if m:
            n = int(m.group(1)); a = V_(args[0])
            out.append('%s = (%s < 0) ? %s : (%s);' % (R, em.sx(n, a), em.mask(n, '(%s)(0 - (%s))' % (em.int_ctype(n), a)), a)); return True
        m = re.match(r'(bswap|ctpop|ctlz|cttz)\.i(\d+)', base)
        if m:
            n = int(m.group(2)); k = m.group(1)
            out.append('%s = (%s)verif_%s(%s, %d);' % (R, em.int_ctype(n), k, '(unsigned __int128)' + V_(args[0]), n)); return True
        m = re.match(r'(fshl|fshr)\.i(\d+)', base)
        if m:
            n = int(m.group(2)); k = m.group(1)
            out.append('%s = (%s)verif_%s((unsigned __int128)%s, (unsigned __int128)%s, (unsigned)%s, %d);' % (R, em.int_ctype(n), k, V_(args[0]), V_(args[1]), V_(args[2]), n)); return True
        if base.startswith(('stacksave',)): out.append('%s = 0;' % R); return True
        if base.startswith('ubsantrap'):
            out.append('__CPROVER_assert(0, "UB in code under test (ubsan trap)"); __CPROVER_assume(0);'); return True
        if base.startswith(('stackrestore', 'trap', 'debugtrap')):
            if base.startswith('trap'): out.append('VERIF_TRAP();')
            return True
        return False

PRELUDE = r'''
#include <stdint.h>
#include <stddef.h>
#include <string.h>
#include <stdlib.h>
#ifndef __CPROVER__
void verif_native_assume(int c); void verif_native_assert(int c, const char* m);
#define __CPROVER_assume(c) verif_native_assume(!!(c))
#define __CPROVER_assert(c, m) verif_native_assert(!!(c), m)
#endif
#define BITCAST(TT,FT,e) ({ FT f_ = (e); TT t_; memcpy(&t_, &f_, sizeof(t_)); t_; })
static inline int64_t SDIV64(int64_t a, int64_t b) { return a / b; }
/* CBMC does not constant-fold NULL - NULL; equality of pointers does fold */
#define VERIF_PTRDIFF(a, b) (((uint8_t*)(a) == (uint8_t*)(b)) ? (int64_t)0 : (int64_t)((uint8_t*)(a) - (uint8_t*)(b)))
/* relational pointer comparison: inside one object the address order is the offset order (lets symex decide `pc < end` for concrete pointers) */
#ifdef __CPROVER__
/* a null operand: NULL has address 0 and every object a non-zero address, so the order is decided by the two null tests (lets symex fold `nullptr < &obj`, e.g. std::map keys) */
/* order matters: the same-object test first (it folds for one-past-the-end pointers such as `pad + 64`, for which symex cannot decide `p == 0`;
   putting the null test first made every CSHA256::Finalize path symbolic: sha256_padding went from 60 s to no verdict in 900 s) */
#define VERIF_PTRCMP(a, op, b) (__CPROVER_same_object((a), (b)) ? (__CPROVER_POINTER_OFFSET(a) op __CPROVER_POINTER_OFFSET(b)) : ((a) == 0 || (b) == 0) ? ((int)((a) != 0) op (int)((b) != 0)) : ((uintptr_t)(a) op (uintptr_t)(b)))
#else
#define VERIF_PTRCMP(a, op, b) ((uintptr_t)(a) op (uintptr_t)(b))
#endif
static inline int64_t SREM64(int64_t a, int64_t b) { return a % b; }
static inline __int128 SDIV128(__int128 a, __int128 b) { return a / b; }
static inline __int128 SREM128(__int128 a, __int128 b) { return a % b; }
uint8_t* ll_memcpy(uint8_t*, uint8_t*, uint64_t); uint8_t* ll_memmove(uint8_t*, uint8_t*, uint64_t); uint8_t* ll_memset(uint8_t*, uint32_t, uint64_t);
static inline void* verif_alloc_check(void* p) { __CPROVER_assume(p != 0); return p; }
/* 128-bit multiplication (FeeFrac::Mul and friends). Default: the plain product. Opt-in -DVERIF_MUL128_NARROW=k (harnesses whose operands are small by construction):
   both operands are ASSERTED to have magnitude < 2^k (k <= 31) and the product is formed from the k-bit magnitudes and the signs. A 128x128 multiplier whose operand
   bits are symbolic sign-extension copies costs ~80k clauses per product, a k x k one almost nothing; sound because a feasible wider operand fails the assertion. */
#if defined(VERIF_MUL128_NARROW) && defined(__CPROVER__)
#define VERIF_MUL128(a, b) ({ __int128 a_ = (__int128)(a), b_ = (__int128)(b); const __int128 lim_ = (__int128)1 << VERIF_MUL128_NARROW; \
  int ok_ = a_ > -lim_ && a_ < lim_ && b_ > -lim_ && b_ < lim_; \
  __CPROVER_assert(ok_, "128-bit multiplication operands within the harness's declared VERIF_MUL128_NARROW width"); __CPROVER_assume(ok_); \
  uint64_t ma_ = (uint64_t)(a_ < 0 ? -a_ : a_) & (((uint64_t)1 << VERIF_MUL128_NARROW) - 1), mb_ = (uint64_t)(b_ < 0 ? -b_ : b_) & (((uint64_t)1 << VERIF_MUL128_NARROW) - 1); \
  uint64_t p_ = ma_ * mb_; (unsigned __int128)(((a_ < 0) != (b_ < 0)) ? -(__int128)p_ : (__int128)p_); })
#else
#define VERIF_MUL128(a, b) ((unsigned __int128)((unsigned __int128)(a) * (unsigned __int128)(b)))
#endif
/* typed allocation whose element count is not a compile-time constant (vector growth: the count is symbolic after a path merge, and a symbolic-size
   array of structs is very expensive). Opt-in -DVERIF_TALLOC_MAX=k: the count is ASSERTED to be <= k and exactly k elements are allocated, so symex sees one
   constant-size object (over-allocation is unobservable; a feasible larger allocation fails the assertion; same idea as VERIF_ALLOC_MAX in rt.c) */
#if defined(VERIF_TALLOC_MAX) && defined(__CPROVER__)
#define VERIF_TALLOC(T, n) ({ uint64_t n_ = (n); __CPROVER_assert(n_ <= VERIF_TALLOC_MAX, "typed allocation within the harness's declared VERIF_TALLOC_MAX"); __CPROVER_assume(n_ <= VERIF_TALLOC_MAX); malloc(sizeof(T) * VERIF_TALLOC_MAX); })
#else
#define VERIF_TALLOC(T, n) malloc(sizeof(T) * (n))
#endif
extern int verif_exc_pending; extern void* verif_exc_obj; extern void* verif_exc_type;
struct verif_ti { void* vt; const char* name; struct verif_ti* base; };
int verif_exc_matches(void* tinfo); long verif_typeid_for(void* tinfo);
unsigned __int128 verif_bswap(unsigned __int128 x, int n); unsigned __int128 verif_ctpop(unsigned __int128 x, int n);
unsigned __int128 verif_ctlz(unsigned __int128 x, int n); unsigned __int128 verif_cttz(unsigned __int128 x, int n);
unsigned __int128 verif_fshl(unsigned __int128 a, unsigned __int128 b, unsigned c, int n); unsigned __int128 verif_fshr(unsigned __int128 a, unsigned __int128 b, unsigned c, int n);
#ifdef __CPROVER__
#define VERIF_UNREACHABLE() __CPROVER_assert(0, "llvm unreachable reached")
#define VERIF_XLATE_CHECK(c) __CPROVER_assert(c, "translator assumption: typed element copy length is a multiple of the element size")
#define VERIF_TRAP() __CPROVER_assert(0, "llvm.trap reached")
#else
#define VERIF_UNREACHABLE() verif_native_assert(0, "llvm unreachable reached")
#define VERIF_XLATE_CHECK(c) do { if (!(c)) { printf("XLATE-CHECK-FAIL\n"); exit(3); } } while (0)
#define VERIF_TRAP() verif_native_assert(0, "llvm.trap reached")
#endif
'''

_RT_TI = None
def _rt_typeinfos():
    global _RT_TI
    if _RT_TI is None:
        import os, re as _re
        try: _RT_TI = set(_re.findall(r'^struct verif_ti (_ZTI\w+) =', open(os.path.join(os.path.dirname(os.path.abspath(__file__)), 'rt.c')).read(), _re.M))
        except OSError: _RT_TI = set()
    return _RT_TI

_RT_THROW = None
def _rt_throw_fns():
    global _RT_THROW
    if _RT_THROW is None:
        import os, re as _re
        try: _RT_THROW = set(_re.findall(r'^void (_ZSt\d+__throw_\w+)\(', open(os.path.join(os.path.dirname(os.path.abspath(__file__)), 'rt.c')).read(), _re.M))
        except OSError: _RT_THROW = set()
    return _RT_THROW

def translate_module(text, opts=None):
    m = parse_module(text)
    # libstdc++ header-inline `std::__throw_*` helpers (e.g. __throw_bad_optional_access) are emitted by the TU when used; the runtime model's definition wins
    for name, f in m.funcs.items():
        if f.defined and name[1:] in _rt_throw_fns(): f.defined = False; f.blocks = collections.OrderedDict()
    em = Emitter(m, opts or {})
    protos = []; bodies = []
    # globals first (types get emitted lazily)
    gdecl = []; gdef = []
    for name, (ty, init, const) in m.globals.items():
        cn = em.cname(name, 'g')
        ct = em.ctype(ty)
        if init is not None and name.startswith('@_ZTI') and name[1:] in _rt_typeinfos():
            gdecl.append('extern struct verif_ti %s;' % cn); continue     # header-only exception class (e.g. std::bad_optional_access): the TU emits its type_info too; rt.c's copy (same layout) is the one the exception model walks
        if init is None:
            if name.startswith('@_ZTI'): gdecl.append('extern struct verif_ti %s;' % cn)          # std::type_info objects live in rt.c
            elif name.startswith('@_ZTVN10__cxxabiv1'): gdecl.append('extern void* %s[8];' % cn)
            else: gdecl.append('extern %s %s;' % (ct, cn))
        else:
            gdecl.append('static %s %s;' % (ct, cn)) if False else gdecl.append('%s %s;' % (ct, cn))
    for name, f in m.funcs.items():
        if name.startswith('@llvm.'): continue
        if name.startswith('@__CPROVER_'): continue
        ty = em.ctype if f.defined else em.gtype
        ps = ', '.join(ty(t) for t, _ in f.params) or 'void'
        if f.va: ps = ps + ', ...' if f.params else 'void'
        protos.append('%s %s(%s);' % (ty(f.ret), em.cname(name, 'g'), ps))
    for name, f in m.funcs.items():
        if not f.defined: continue
        ft = FuncTranslator(em, f)
        try:
            hdr, body = ft.translate()
        except Exception as e:
            raise RuntimeError('in function %s: %s' % (name, e)) from e
        bodies.append(body)
    for name, (ty, init, const) in m.globals.items():
        if init is not None and not (name.startswith('@_ZTI') and name[1:] in _rt_typeinfos()):
            gdef.append('%s %s = %s;' % (em.ctype(ty), em.cname(name, 'g'), em.init(init)))
    out = [PRELUDE]
    out.extend(em.struct_defs)
    out.extend(protos)
    out.extend(gdecl)
    out.extend(gdef)
    out.extend(bodies)
    ext = sorted(n for n, f in m.funcs.items() if not f.defined and not n.startswith('@llvm.'))
    return '\n'.join(out), ext

if __name__ == '__main__':
    src = open(sys.argv[1]).read()
    c, ext = translate_module(src)
    open(sys.argv[2], 'w').write(c)
    sys.stderr.write('externals: %s\n' % ' '.join(ext))
