// Equivalents of the std::views pipes that clang-14 + libstdc++-12 cannot instantiate.
// Used only by overlay copies (tool/overlay.py); semantics identical for the uses rewritten.
#pragma once
#include <iterator>
#include <cstddef>
namespace verif_ranges {
template <class C> struct Rev { C& c; auto begin() const { return std::rbegin(c); } auto end() const { return std::rend(c); } };
template <class C> Rev<C> reversed(C& c) { return Rev<C>{c}; }
template <class C> struct Drop { C& c; std::size_t n;
  auto begin() const { auto it = std::begin(c); auto e = std::end(c); for (std::size_t i = 0; i < n && it != e; ++i) ++it; return it; }
  auto end() const { return std::end(c); } };
template <class C> Drop<C> dropped(C& c, std::size_t n) { return Drop<C>{c, n}; }
}
