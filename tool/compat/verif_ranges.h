// Equivalents of the std::views pipes that clang-14 + libstdc++-12 cannot instantiate.
// Used only by overlay copies (tool/overlay.py); semantics identical for the uses rewritten.
#pragma once
#include <iterator>
#include <cstddef>
namespace verif_ranges {
template <class C> struct Rev { C& c; auto begin() const { return std::rbegin(c); } auto end() const { return std::rend(c); } };
template <class C> Rev<C> reversed(C& c) { return Rev<C>{c}; }
template <class C> struct Drop { C& c; std::size_t n;
  auto begin() const { auto it = std::begin(c); auto e = std::end(c); for (std::size_t i = 0; i < n && it != e; ++i) ++it; return it; }
  auto end() const { return std::end(c); } };
template <class C> Drop<C> dropped(C& c, std::size_t n) { return Drop<C>{c, n}; }
}
// filter view (forward range, common): stand-in for `c | std::views::filter(pred)`; usable with std::ranges algorithms.
#include <memory>
namespace verif_ranges {
template <class It, class Pred> struct FilterIt {
  using iterator_concept = std::forward_iterator_tag; using iterator_category = std::forward_iterator_tag;
  using value_type = typename std::iterator_traits<It>::value_type; using difference_type = std::ptrdiff_t;
  using reference = typename std::iterator_traits<It>::reference; using pointer = typename std::iterator_traits<It>::pointer;
  It cur{}, last{}; const Pred* pred{nullptr};
  FilterIt() = default;
  FilterIt(It c, It l, const Pred* p) : cur(c), last(l), pred(p) { skip(); }
  void skip() { while (cur != last && !(*pred)(*cur)) ++cur; }
  reference operator*() const { return *cur; }
  pointer operator->() const { return std::addressof(*cur); }
  FilterIt& operator++() { ++cur; skip(); return *this; }
  FilterIt operator++(int) { FilterIt t = *this; ++*this; return t; }
  friend bool operator==(const FilterIt& a, const FilterIt& b) { return a.cur == b.cur; }
};
template <class C, class Pred> struct Filter { C& c; Pred pred;
  using iterator = FilterIt<decltype(std::begin(std::declval<C&>())), Pred>;
  iterator begin() const { return iterator(std::begin(c), std::end(c), &pred); }
  iterator end() const { return iterator(std::end(c), std::end(c), &pred); } };
template <class C, class Pred> Filter<C, Pred> filtered(C& c, Pred pred) { return Filter<C, Pred>{c, std::move(pred)}; }
}
