// Copyright (c) 2023-present The Bitcoin Core developers
// Distributed under the MIT software license, see the accompanying
// file COPYING or https://opensource.org/license/mit/.

#ifndef BITCOIN_CONFIG_H
#define BITCOIN_CONFIG_H

/* Version Build */
#define CLIENT_VERSION_BUILD 0

/* Version is release */
#define CLIENT_VERSION_IS_RELEASE false

/* Major version */
#define CLIENT_VERSION_MAJOR 31

/* Minor version */
#define CLIENT_VERSION_MINOR 99

/* Copyright holder(s) before %s replacement */
#define COPYRIGHT_HOLDERS "The %s developers"

/* Copyright holder(s) */
#define COPYRIGHT_HOLDERS_FINAL "The Bitcoin Core developers"

/* Replacement for %s in copyright holders string */
#define COPYRIGHT_HOLDERS_SUBSTITUTION "Bitcoin Core"

/* Copyright year */
#define COPYRIGHT_YEAR 2026

/* Define if external signer support is enabled */
#define ENABLE_EXTERNAL_SIGNER 1

/* Define to 1 to enable tracepoints for Userspace, Statically Defined Tracing
   */
/* #undef ENABLE_TRACING */

/* Define to 1 to enable wallet functions. */
#define ENABLE_WALLET 1

/* Define to 1 if you have the declaration of `fork', and to 0 if you don't.
   */
#define HAVE_DECL_FORK 1

/* Define to 1 if '*ifaddrs' are available. */
#define HAVE_IFADDRS 1

/* Define to 1 if you have the declaration of `pipe2', and to 0 if you don't.
   */
#define HAVE_DECL_PIPE2 1

/* Define to 1 if you have the declaration of `setsid', and to 0 if you don't.
   */
#define HAVE_DECL_SETSID 1

/* Define to 1 if fdatasync is available. */
#define HAVE_FDATASYNC 1

/* Define this symbol if the BSD getentropy system call is available with
   sys/random.h */
#define HAVE_GETENTROPY_RAND 1

/* Define this symbol if the Linux getrandom function call is available */
#define HAVE_GETRANDOM 1

/* Define this symbol if you have malloc_info */
#define HAVE_MALLOC_INFO 1

/* Define this symbol if you have mallopt with M_ARENA_MAX */
#define HAVE_MALLOPT_ARENA_MAX 1

/* Define to 1 if O_CLOEXEC flag is available. */
#define HAVE_O_CLOEXEC 1

/* Define this symbol if you have posix_fallocate */
#define HAVE_POSIX_FALLOCATE 1

/* Define this symbol if platform supports unix domain sockets */
#define HAVE_SOCKADDR_UN 1

/* Define this symbol to build code that uses getauxval */
#define HAVE_STRONG_GETAUXVAL 1

/* Define this symbol if the BSD sysctl() is available */
/* #undef HAVE_SYSCTL */

/* Define this symbol if the BSD sysctl(KERN_ARND) is available */
/* #undef HAVE_SYSCTL_ARND */

/* Define to 1 if std::system is available. */
#define HAVE_SYSTEM 1

/* Define to the address where bug reports for this package should be sent. */
#define CLIENT_BUGREPORT "https://github.com/bitcoin/bitcoin/issues"

/* Define to the full name of this package. */
#define CLIENT_NAME "Bitcoin Core"

/* Define to the home page for this package. */
#define CLIENT_URL "https://bitcoincore.org/"

/* Define to the version of this package. */
#define CLIENT_VERSION_STRING "31.99.0"

/* Define to 1 if strerror_r returns char *. */
#define STRERROR_R_CHAR_P 1

/* Define if dbus support should be compiled in */
/* #undef USE_DBUS */

/* Define if QR support should be compiled in */
/* #undef USE_QRCODE */

#endif //BITCOIN_CONFIG_H
