"""Syntactic normalisations that let clang-14 parse a handful of C++20 constructs used in /repo.
Applied to a scratch copy regenerated from /repo on every run; the original is never touched.
A rule that no longer matches is skipped: if the construct is still there the compile fails and the
check is reported inconclusive ("cannot encode"), never passed."""
import os, re, hashlib

RULES = {
    'validation.cpp': [
        (r'for \(CBlockIndex\* pindexConnect : vpindexToConnect \| std::views::reverse\)',
         'for (CBlockIndex* pindexConnect : verif_ranges::reversed(vpindexToConnect))'),
        (r'connected_blocks\.emplace_back\(pindexNew, std::move\(block_to_connect\)\);',
         'connected_blocks.push_back(ConnectedBlock{pindexNew, std::move(block_to_connect)});'),
    ],
    'coins.cpp': [
        (r'for \(const auto& tx : block\.vtx \| std::views::drop\(1\)\)',
         'for (const auto& tx : verif_ranges::dropped(block.vtx, 1))'),
    ],
    'txmempool.cpp': [
        (r'for \(const Txid& hash : vHashesToUpdate \| std::views::reverse\)',
         'for (const Txid& hash : verif_ranges::reversed(vHashesToUpdate))'),
    ],
    'private_broadcast.cpp': [
        (r'auto pending_transactions\{m_transactions \| std::views::filter\(\[this\]\(const auto& entry\) \{ return IsPending\(entry\.second\); \}\)\};',
         'auto pending_transactions{verif_ranges::filtered(m_transactions, [this](const auto& entry) { return IsPending(entry.second); })};'),
    ],
    'httpserver.cpp': [
        # HTTPHeaders::RemoveAll: std::ranges::remove_if's subrange return type does not instantiate under clang-14 + libstdc++-12
        (r'auto moved = std::ranges::remove_if\(m_headers, \[key\] \(auto& pair\) \{\s*return CaseInsensitiveEqual\(key, pair\.first\);\s*\}\);\s*m_headers\.erase\(moved\.begin\(\), moved\.end\(\)\);',
         'auto moved = std::remove_if(m_headers.begin(), m_headers.end(), [key] (auto& pair) { return CaseInsensitiveEqual(key, pair.first); }); m_headers.erase(moved, m_headers.end());'),
    ],
    'util/btcsignals.h': [
        (r'using result_type = Combiner::result_type;', 'using result_type = typename Combiner::result_type;'),
    ],
}

def rules_for(path):
    for suffix, rs in RULES.items():
        if path.endswith('/' + suffix):
            return rs
    return None

def apply(path, work):
    rs = rules_for(path)
    if not rs:
        return path
    s = open(path).read()
    n = 0
    for pat, rep in rs:
        s, k = re.subn(pat, rep, s)
        n += k
    if n == 0:
        return path
    s = '#include <verif_ranges.h>\n' + s
    d = os.path.join(work, 'overlay'); os.makedirs(d, exist_ok=True)
    out = os.path.join(d, hashlib.md5(path.encode()).hexdigest()[:8] + '_' + os.path.basename(path))
    open(out, 'w').write(s)
    return out


def header_include_dirs(src_root, work):
    """Rules whose key is a header: patched copies laid out under <work>/overlay_inc so that `-I <dir>` placed before the real
    source tree shadows the original for `#include <util/...h>`. Regenerated from the tree under test on every build."""
    d = os.path.join(work, 'overlay_inc'); used = False
    for suffix, rs in RULES.items():
        if not suffix.endswith('.h'):
            continue
        p = os.path.join(src_root, suffix)
        if not os.path.exists(p):
            continue
        s = open(p).read(); n = 0
        for pat, rep in rs:
            s, k = re.subn(pat, rep, s); n += k
        if n == 0:
            continue
        out = os.path.join(d, suffix); os.makedirs(os.path.dirname(out), exist_ok=True)
        tmp = out + '.%d.tmp' % os.getpid(); open(tmp, 'w').write(s); os.replace(tmp, out); used = True
    return [d] if used else []
