#!/usr/bin/env python3
"""Driver library: builds harnesses from /repo's current working tree, runs CBMC, replays
counterexamples natively, validates the IR->C translator differentially, writes evidence.

Exit codes of a property check: 0 = held within the stated bounds; 1 = VIOLATION (native-replayed);
2 = inconclusive (tool error, timeout, out of memory, unwinding bound too small, vacuous harness,
translator differential mismatch, counterexample that does not replay).
"""
import os, sys, re, json, time, hashlib, shutil, subprocess, tempfile, threading, importlib.util, resource
from concurrent.futures import ThreadPoolExecutor

VERIF = os.path.dirname(os.path.dirname(os.path.abspath(__file__)))
TOOL = os.path.join(VERIF, 'tool')
REPO = os.environ.get('VERIF_REPO', '/repo')
SRC = os.path.join(REPO, 'src')
CACHE = os.environ.get('VERIF_CACHE', '/var/tmp/verif-cache')
NCPU = int(os.environ.get('VERIF_JOBS', str(os.cpu_count() or 4)))
MEM_KB = int(os.environ.get('VERIF_MEM_KB', str(20 * 1024 * 1024)))
TAPE_MAX = 1024

sys.path.insert(0, TOOL)
import ll2c  # noqa: E402
import overlay  # noqa: E402


def build_config_dir():
    d = os.path.join(REPO, '_build', 'src')
    if os.path.exists(os.path.join(d, 'bitcoin-build-config.h')):
        return d
    return os.path.join(TOOL, 'compat', 'buildcfg')


UBSAN = ['-fsanitize=shift,signed-integer-overflow,integer-divide-by-zero,bounds,unreachable,builtin,return',
         '-fsanitize-trap=all']


# H(interpose=True): linked real TUs are compiled so that out-of-line external functions stay interposable (never inlined into their callers
# inside the TU) -- required when a harness overrides a method that has callers in the same TU (clang -O1 otherwise inlines the real body)
INTERPOSE = ['-fPIC', '-fsemantic-interposition']


def cxx_flags(defs=None, opt='-O1', ubsan=True, nofmt=False):
    # nofmt: False/True or a list of shadow-header directories under ref/ ('nofmt', 'nopool', ...) searched before the real tree
    shadows = (['nofmt'] if nofmt is True else list(nofmt or []))
    f = (UBSAN if ubsan else []) + [x for d in shadows for x in ('-I', os.path.join(VERIF, 'ref', d))] + ['-std=c++20', opt, '-Dconsteval=constexpr', '-Wno-keyword-macro', '-w',
         '-fno-vectorize', '-fno-slp-vectorize', '-fno-unroll-loops', '-fno-strict-aliasing',
         '-isystem', os.path.join(TOOL, 'compat'), '-I', TOOL, '-I', os.path.join(VERIF, 'ref'),
         '-I', SRC, '-I', build_config_dir(),
         '-I', os.path.join(SRC, 'secp256k1', 'include'), '-I', os.path.join(SRC, 'univalue', 'include'),
         '-I', os.path.join(SRC, 'leveldb', 'include'), '-I', os.path.join(SRC, 'minisketch', 'include'),
         '-DVERIF=1']
    for k, v in sorted((defs or {}).items()):
        f.append('-D%s=%s' % (k, v) if v is not None else '-D%s' % k)
    return f


class Inconclusive(Exception):
    pass


def run(cmd, timeout=None, cwd=None, mem_kb=None, env=None, stdin=None):
    """run a command with wall timeout and address-space limit; returns (rc, out, wall, 0)"""
    if mem_kb:
        cmd = ['prlimit', '--as=%d' % (mem_kb * 1024)] + list(cmd)
    t0 = time.time()
    p = subprocess.Popen(cmd, stdout=subprocess.PIPE, stderr=subprocess.STDOUT, cwd=cwd, start_new_session=True, env=env,
                         stdin=subprocess.DEVNULL if stdin is None else subprocess.PIPE)
    try:
        out, _ = p.communicate(input=stdin, timeout=timeout)
        rc = p.returncode
    except subprocess.TimeoutExpired:
        try:
            os.killpg(p.pid, 9)
        except Exception:
            pass
        out, _ = p.communicate()
        rc = 'timeout'
    return rc, out.decode('utf-8', 'replace'), time.time() - t0, 0


class H:
    """One harness = one entry function; `variants` = list of dicts of -D defines (concrete shapes /
    case splits), each a separate solver query set."""
    def __init__(self, name, src, entry, link=(), variants=None, defines=None, unwind=None, unwindset=None,
                 cbmc=(), tier='quick', timeout=300, route='B', functions=(), stubs=(), assumptions=(),
                 bounds='', checks=(), opt='-O1', backends=('default',), diff_runs=40, override=(),
                 objbits=None, keep=(), tvariants=None, memunwind=72, noop=(), nofmt=False, shadow=(), allow_nobody=(), fsarray=256, entries=None, tentries=None, replace=None, interpose=False, csrc=(), slice_formula=True, include_dirs=(), global_ctors=False, ubsan=True, witness_backends=()):
        self.witness_backends = list(witness_backends); self.global_ctors = global_ctors; self.ubsan = ubsan; self.memunwind = memunwind; self.noop = list(noop); self.nofmt = (list(shadow) + (['nofmt'] if nofmt and 'nofmt' not in shadow else [])) or False; self.allow_nobody = list(allow_nobody); self.fsarray = fsarray; self.replace = dict(replace or {}); self.interpose = interpose; self.entries = entries; self.tentries = tentries   # entries: [(name, 'template,args'), ...] -> one shared build, one solver query per entry
        self.name = name; self.src = src; self.entry = entry; self.link = list(link)
        self.variants = variants or [{}]; self.tvariants = tvariants  # thorough-tier variants (default: same)
        self.defines = defines or {}
        self.unwind = unwind; self.unwindset = unwindset; self.cbmc = list(cbmc); self.tier = tier
        self.timeout = timeout; self.route = route; self.functions = list(functions); self.stubs = list(stubs)
        self.assumptions = list(assumptions); self.bounds = bounds; self.checks = list(checks); self.opt = opt
        self.backends = list(backends); self.diff_runs = diff_runs; self.override = list(override)
        self.objbits = objbits; self.keep = list(keep); self.csrc = list(csrc); self.slice_formula = slice_formula
        self.include_dirs = list(include_dirs)


_ir_lock = threading.Lock()
_ir_locks = {}
_ir_memo = {}


def sha(s):
    return hashlib.sha256(s if isinstance(s, bytes) else s.encode()).hexdigest()


def compile_ir(path, defs, work, opt='-O1', tag=None, overlay_rules=True, ubsan=True, nofmt=False, extra_flags=()):
    """C++ file -> LLVM IR text file; content-addressed cache on the preprocessed source."""
    flags = cxx_flags(defs, opt, ubsan, nofmt) + list(extra_flags)
    src = path
    if overlay_rules:
        src = overlay.apply(path, work)  # returns scratch copy (or the original) ; raises on rule mismatch
    extra = ['-I', os.path.dirname(path)] if src != path else []
    hdr = [x for d in overlay.header_include_dirs(SRC, work) for x in ('-I', d)]   # patched headers (clang-14 normalisations) shadow the originals
    key_base = sha(path + ' '.join(flags))
    with _ir_lock:
        lk = _ir_locks.setdefault(key_base, threading.Lock())
    with lk:
        if key_base in _ir_memo:
            return _ir_memo[key_base]
        rc, pre, _, _ = run(['clang++-14'] + hdr + flags + extra + ['-E', '-P', src], timeout=300)
        if rc != 0:
            raise Inconclusive('preprocess failed for %s:\n%s' % (path, pre[-3000:]))
        key = sha(pre + ' '.join(flags) + 'v3')
        os.makedirs(CACHE, exist_ok=True)
        cpath = os.path.join(CACHE, key + '.ll')
        if not os.path.exists(cpath):
            tmp = cpath + '.%d.tmp' % os.getpid()
            rc, out, _, _ = run(['clang++-14'] + hdr + flags + extra + ['-S', '-emit-llvm', src, '-o', tmp], timeout=900)
            if rc != 0:
                raise Inconclusive('clang IR compile failed for %s:\n%s' % (path, out[-4000:]))
            os.replace(tmp, cpath)
        _ir_memo[key_base] = cpath
        return cpath


def resolve_src(p, hdir):
    if os.path.isabs(p):
        return p
    for base in (hdir, TOOL, SRC, VERIF):
        q = os.path.join(base, p)
        if os.path.exists(q):
            return q
    raise Inconclusive('source not found: ' + p)


RESULT_RE = re.compile(r'^\[([^\]]+)\] (?:line \d+ )?(.*): (SUCCESS|FAILURE|UNKNOWN|ERROR)$')


def parse_cbmc(out):
    props = []
    for ln in out.splitlines():
        m = RESULT_RE.match(ln.strip())
        if m:
            props.append((m.group(1), m.group(2), m.group(3)))
    verdict = None
    if 'VERIFICATION SUCCESSFUL' in out: verdict = 'ok'
    elif 'VERIFICATION FAILED' in out: verdict = 'failed'
    return verdict, props


def cbmc_base(h, objbits=None, variant=None):
    a = ['--drop-unused-functions', '--no-standard-checks', '--no-malloc-may-fail', '--unwinding-assertions',
         '--no-built-in-assertions' if False else '--verbosity', '6']
    if h.slice_formula:
        a.append('--slice-formula')
    # libstdc++ node containers keep their value in raw aligned byte buffers ([N x i8]); CBMC only tracks arrays field-sensitively
    # up to this size (default 64), beyond it every typed access becomes an unsimplified byte_extract and constants are lost
    a += ['--max-field-sensitivity-array-size', str(getattr(h, 'fsarray', 256))]
    if h.unwind is not None:
        a += ['--unwind', str(h.unwind)]
    us = []
    if h.route == 'B' and h.memunwind:
        us = ['%s:%d' % (l, h.memunwind) for l in ('ll_memcpy.0', 'll_memmove.0', 'll_memmove.1', 'll_memset.0', 'memcmp.0', 'strlen.0')]
    if h.unwindset:
        us.append(h.unwindset(variant or {}) if callable(h.unwindset) else h.unwindset)
    if us:
        a += ['--unwindset', ','.join(us)]
    if h.objbits or objbits:
        a += ['--object-bits', str(h.objbits or objbits)]
    for c in h.checks:
        a.append(c)
    a += h.cbmc
    return a


BACKENDS = {
    'default': [],
    'cadical': ['--sat-solver', 'cadical'],
    'kissat': ['--external-sat-solver', 'kissat'],
    'z3': ['--z3'],
    'cvc5int': ['--cvc5'],   # through PATH shim adding --solve-bv-as-int=sum
    'cvc5int-di': ['--cvc5'],   # same + --decision=internal (the two decision heuristics fail on different non-linear queries)
    'cvc5int-bw': ['--cvc5'],   # --solve-bv-as-int=bitwise
    'cvc5': ['--cvc5'],
    'kissat-sweep': ['--external-sat-solver', 'kissat-sweep'],   # through PATH shim: kissat --sweepcomplete=true (SAT sweeping to completion: proves internal equivalences of miters bottom-up)
}


CVC5_SHIM_OPTS = {'cvc5int': '--solve-bv-as-int=sum', 'cvc5int-di': '--solve-bv-as-int=sum --decision=internal', 'cvc5int-bw': '--solve-bv-as-int=bitwise'}


def backend_env(b, work):
    env = dict(os.environ)
    if b in CVC5_SHIM_OPTS:
        d = os.path.join(work, 'shim-' + b); os.makedirs(d, exist_ok=True)
        p = os.path.join(d, 'cvc5')
        if not os.path.exists(p):
            open(p + '.tmp', 'w').write('#!/bin/sh\nexec /usr/bin/cvc5 %s "$@"\n' % CVC5_SHIM_OPTS[b]); os.chmod(p + '.tmp', 0o755); os.replace(p + '.tmp', p)
        env['PATH'] = d + ':' + env['PATH']
    if b == 'kissat-sweep':
        d = os.path.join(work, 'shim-' + b); os.makedirs(d, exist_ok=True)
        p = os.path.join(d, 'kissat-sweep')
        if not os.path.exists(p):
            open(p + '.tmp', 'w').write('#!/bin/sh\nexec kissat --sweepcomplete=true "$@"\n'); os.chmod(p + '.tmp', 0o755); os.replace(p + '.tmp', p)
        env['PATH'] = d + ':' + env['PATH']
    return env


def run_cbmc_sweep(h, files, entry, work, extra=(), timeout=None, variant=None):
    """run cbmc on each configured back end in parallel; first conclusive answer wins"""
    timeout = timeout or h.timeout
    if os.environ.get("VERIF_TIMEOUT"): timeout = int(os.environ["VERIF_TIMEOUT"])
    results = {}
    procs = {}
    lock = threading.Lock()
    done = threading.Event()

    def one(b):
        cmd = ['cbmc'] + files + ['--function', entry] + cbmc_base(h, variant=variant) + BACKENDS[b] + list(extra)
        env = backend_env(b, work)
        t0 = time.time()

        p = subprocess.Popen(['prlimit', '--as=%d' % (MEM_KB * 1024), '/usr/bin/time', '-f', 'MAXRSS_KB=%M'] + cmd, stdout=subprocess.PIPE, stderr=subprocess.STDOUT,
                             start_new_session=True, env=env, cwd=work, stdin=subprocess.DEVNULL)
        with lock:
            procs[b] = p
        try:
            out, _ = p.communicate(timeout=timeout)
            rc = p.returncode
        except subprocess.TimeoutExpired:
            try: os.killpg(p.pid, 9)
            except Exception: pass
            out, _ = p.communicate(); rc = 'timeout'
        out = out.decode('utf-8', 'replace')
        verdict, props = parse_cbmc(out)
        m = re.search(r'MAXRSS_KB=(\d+)', out)
        r = dict(backend=b, rc=rc, out=out, verdict=verdict, props=props, wall=time.time() - t0,
                 rss_kb=int(m.group(1)) if m else 0, cmd=' '.join(cmd))
        with lock:
            results[b] = r
            if verdict is not None and '(error' not in out and not done.is_set():
                done.set()
                for bb, pp in procs.items():
                    if bb != b and pp.poll() is None:
                        try: os.killpg(pp.pid, 9)
                        except Exception: pass
        return r

    if len(h.backends) == 1:
        return one(h.backends[0]), results
    ths = [threading.Thread(target=one, args=(b,)) for b in h.backends]
    for t in ths: t.start()
    for t in ths: t.join()
    win = None
    for b in h.backends:
        r = results.get(b)
        if r and r['verdict'] is not None and '(error' not in r['out']:
            if win is None or r['wall'] < win['wall']:
                win = r
    if win is None:
        win = results[h.backends[0]]
    return win, results


def write_tape(path, vals, meta):
    with open(path, 'w') as f:
        f.write('# %s\n' % json.dumps(meta))
        for v in vals:
            f.write('0x%x\n' % v)


def tape_from_trace(out):
    """extract verif_tape[i]=v assignments from a CBMC text trace"""
    vals = {}
    n = None
    for m in re.finditer(r'verif_tape\[(\d+)l?\]=(\d+)ul?', out):
        vals[int(m.group(1))] = int(m.group(2))
    for m in re.finditer(r'verif_tape_n=(\d+)u', out):
        n = int(m.group(1))
    if n is None:
        n = (max(vals) + 1) if vals else 0
    return [vals.get(i, 0) for i in range(min(n, TAPE_MAX))]


class SharedBuild:
    """One build (clang IR -> ll2c -> goto binary + native binaries) shared by all entries of a multi-entry harness."""
    def __init__(self, pid, hdir, h, entries, tier, root):
        self.pid = pid; self.hdir = hdir; self.h = h; self.entries = entries; self.root = root
        self.lock = threading.Lock(); self.done = False; self.err = None
        self.work = os.path.join(root, h.name + '-shared')
        self.job = None; self.gb = None; self.gb_rec = None; self.bins = None; self.build_s = 0

    def ensure(self):
        with self.lock:
            if self.done:
                if self.err: raise Inconclusive(self.err)
                return
            t0 = time.time()
            try:
                os.makedirs(self.work, exist_ok=True)
                inc = os.path.join(self.work, 'verif_entries.inc')
                with open(inc, 'w') as f:
                    for name, args in self.entries:
                        f.write('VERIF_ENTRY(%s, %s)\n' % (name, args))
                j = Job(self.pid, self.hdir, self.h, {}, 'quick', self.root); j.work = self.work
                j.extra_defs = {'VERIF_ENTRIES_INC': '"%s"' % inc, 'VERIF_MULTI': '1'}
                j.entry_list = ['h_' + n for n, _ in self.entries]
                j.build_B()
                self.job = j
                self.gb = self.goto_cc(j, 'prog.gb', [])
                j.build_native()
                self.bins = j.bins
            except Inconclusive as e:
                self.err = 'shared build failed: ' + str(e)
            except Exception:
                import traceback
                self.err = 'shared build failed (driver exception): ' + traceback.format_exc()[-3000:]
            self.done = True; self.build_s = round(time.time() - t0, 2)
            if self.err: raise Inconclusive(self.err)

    def goto_cc(self, j, out, extra):
        o0 = os.path.join(self.work, 'nolib_' + out); o = os.path.join(self.work, out)
        rc, outp, _, _ = run(['goto-cc', '-D__CPROVER__', '-o', o0] + j.cfiles + j.cdefs() + list(extra), timeout=900)   # unlike cbmc, goto-cc does not predefine __CPROVER__
        if rc != 0:
            raise Inconclusive('goto-cc failed:\n' + outp[-3000:])
        # link CBMC's C library models once here: cbmc would otherwise redo it for every entry (minutes on a large program)
        rc, outp, _, _ = run(['goto-instrument', '--add-library', o0, o], timeout=1800)
        if rc != 0 or not os.path.exists(o):
            raise Inconclusive('goto-instrument --add-library failed:\n' + outp[-3000:])
        return o

    def recording_binary(self):
        with self.lock:
            if self.gb_rec is None:
                self.gb_rec = self.goto_cc(self.job, 'prog_rec.gb', ['-D', 'VERIF_RECORD_TAPE', '-D', 'VERIF_TAPE_MAX=%d' % TAPE_MAX])
            return self.gb_rec


class Job:
    def __init__(self, pid, hdir, h, variant, tier, root, shared=None, entry_name=None):
        self.pid = pid; self.hdir = hdir; self.h = h; self.variant = variant; self.tier = tier
        self.shared = shared; self.entry_name = entry_name; self.extra_defs = {}; self.entry_list = None
        vtag = '_'.join('%s%s' % (k, v) for k, v in sorted(variant.items()))
        self.id = h.name + (('-' + re.sub(r'[^A-Za-z0-9_.-]', '_', vtag)) if vtag else '') + (('-' + entry_name) if entry_name else '')
        self.work = os.path.join(root, self.id)
        self.res = dict(harness=h.name, variant=variant, id=self.id)
        if entry_name: self.res['entry'] = entry_name

    # ------------------------------------------------------------------ build
    def build_B(self):
        h = self.h; w = self.work
        os.makedirs(w, exist_ok=True)
        defs = dict(h.defines); defs.update(self.variant); defs.update(self.extra_defs)
        src = resolve_src(h.src, self.hdir)
        lls = [compile_ir(src, defs, w, h.opt, overlay_rules=False, ubsan=h.ubsan, nofmt=h.nofmt)]
        for l in h.link:
            lls.append(compile_ir(resolve_src(l, self.hdir), {k: v for k, v in defs.items() if k.startswith('VERIF_')}, w, h.opt, ubsan=h.ubsan, nofmt=h.nofmt, extra_flags=INTERPOSE if h.interpose else ()))
        lls.append(compile_ir(os.path.join(TOOL, 'models', 'stl_models.cpp'), {}, w, h.opt, overlay_rules=False, ubsan=False))
        ovs = [compile_ir(resolve_src(o, self.hdir), defs, w, h.opt, overlay_rules=False, ubsan=h.ubsan, nofmt=h.nofmt) for o in h.override]
        linked = os.path.join(w, 'linked.bc')
        red = os.path.join(w, 'red.bc'); redll = os.path.join(w, 'red.ll')
        rkey = sha('|'.join(lls) + '#' + '|'.join(ovs) + '#' + ','.join(self.entry_list or [h.entry]) + ','.join(h.keep) + str(h.global_ctors) + '|'.join(h.noop) + repr(sorted(h.replace.items())) + 'r2')
        rcache = os.path.join(CACHE, 'red-' + rkey + '.bc')
        if os.path.exists(rcache):
            shutil.copy(rcache, red)
            rc, out, _, _ = run(['llvm-dis-14', red, '-o', redll], timeout=120)
            if rc != 0:
                raise Inconclusive('llvm-dis failed:\n' + out[-3000:])
            return self.finish_B(red, redll)
        cmd = ['llvm-link-14'] + lls[1:] + ['--override=' + lls[0]] + ['--override=' + o for o in ovs] + ['-o', linked] if len(lls) > 1 or ovs else ['llvm-link-14', lls[0], '-o', linked]
        rc, out, _, _ = run(cmd, timeout=300)
        if rc != 0:
            raise Inconclusive('llvm-link failed:\n' + out[-3000:])
        api = ','.join((self.entry_list or [h.entry]) + h.keep)
        # textual IR edits (all three builds of the harness see the same edited module):
        #  - dynamic initialisers of unrelated globals are not executed by CBMC (it starts at the entry function); drop them
        #    unless the harness asks for them. Harnesses initialise what they need explicitly.
        #  - h.noop: void functions (regex on the mangled name) whose bodies are replaced by `ret void` (listed in evidence as stubs)
        lk = os.path.join(w, 'linked.ll')
        rc, out, _, _ = run(['llvm-dis-14', linked, '-o', lk], timeout=300)
        if rc != 0:
            raise Inconclusive('llvm-dis failed:\n' + out[-3000:])
        txt = open(lk).read()
        if not h.global_ctors:
            txt = '\n'.join(ln for ln in txt.split('\n') if not ln.startswith(('@llvm.global_ctors', '@llvm.global_dtors', '@llvm.used', '@llvm.compiler.used')))
        nooped = []
        for rx in h.noop:
            pat = re.compile(r'^(define [^\n]*?\bvoid @"?(' + rx + r')"?\([^\n]*\{)\n.*?^\}$', re.M | re.S)
            def rep(mm):
                nooped.append(mm.group(2)); return mm.group(1) + '\n  ret void\n}'
            txt = pat.sub(rep, txt)
            if not any(re.fullmatch(rx, n) for n in nooped):
                raise Inconclusive('noop stub pattern matched no void function: ' + rx)
        self.res['noop_stubs'] = nooped
        # h.replace = {mangled original: harness symbol}: the original definition is renamed away and the harness function takes its
        # name (for inline/linkonce functions that cannot be overridden at link time); every such replacement is a stub listed in evidence
        for orig, repl in h.replace.items():
            pat = re.compile(r'^(define [^\n]*?)@"?' + re.escape(orig) + r'"?(\([^\n]*)$', re.M)
            def ren(mm):
                head = re.sub(r'\b(linkonce_odr|linkonce|weak_odr|weak)\b', 'internal', mm.group(1)); tail = re.sub(r' comdat(\(\$[^)]*\))?', '', mm.group(2))
                return head + '@"' + orig + '.verif_orig"' + tail
            txt, k = pat.subn(ren, txt)
            if k != 1 or ('@' + repl + '(') not in txt:
                raise Inconclusive('replace stub: original %s (%d definitions) or replacement %s not found' % (orig, k, repl))
            txt = txt.replace('@' + repl + '(', '@' + orig + '(')
        open(lk, 'w').write(txt); linked = lk
        rc, out, _, _ = run(['opt-14', '-internalize', '-internalize-public-api-list=' + api, '-globaldce', linked, '-o', red], timeout=300)
        if rc != 0:
            raise Inconclusive('opt failed:\n' + out[-3000:])
        rc, out, _, _ = run(['llvm-dis-14', red, '-o', redll], timeout=120)
        if rc != 0:
            raise Inconclusive('llvm-dis failed:\n' + out[-3000:])
        try:
            tmp = rcache + '.%d.tmp' % threading.get_ident(); shutil.copy(red, tmp); os.replace(tmp, rcache)
        except Exception:
            pass
        return self.finish_B(red, redll)

    def finish_B(self, red, redll):
        h = self.h; w = self.work
        try:
            csrc, ext = ll2c.translate_module(open(redll).read(), {'inline_gep': True} if 'VERIF_LL2C_INLINE_GEP' in h.defines else None)   # opt-in translator option through the harness's defines
        except Exception as e:
            raise Inconclusive('ll2c cannot encode: %s' % e)
        cfile = os.path.join(w, 'h.c')
        open(cfile, 'w').write(csrc)
        self.res['ir_lines'] = sum(1 for _ in open(redll))
        self.res['externals'] = [e[1:] for e in ext]
        self.res['functions_defined'] = len(re.findall(r'^define ', open(redll).read(), re.M))
        wrap = os.path.join(w, 'wrap.c')
        if self.entry_list:
            ws = 'extern int verif_exc_pending;\n'
            for e in self.entry_list:
                ws += 'void %s(void);\nvoid verif_main_%s(void) { %s(); __CPROVER_assert(!verif_exc_pending, "uncaught exception escaped harness"); }\n' % (e, e[2:], e)
            open(wrap, 'w').write(ws)
            disp = os.path.join(w, 'dispatch.c')
            open(disp, 'w').write(''.join('void %s(void);\n' % e for e in self.entry_list) + 'struct verif_entry { const char* name; void (*fn)(void); };\nstruct verif_entry verif_entries[] = {' +
                                  ''.join('{"%s", %s},' % (e[2:], e) for e in self.entry_list) + '{0, 0}};\n')
            self.dispatch = disp
        else:
            open(wrap, 'w').write('extern int verif_exc_pending; void %s(void);\nvoid verif_main(void) { %s(); __CPROVER_assert(!verif_exc_pending, "uncaught exception escaped harness"); }\n' % (h.entry, h.entry))
            self.dispatch = None
        self.cfiles = [cfile, wrap, os.path.join(TOOL, 'rt.c'), os.path.join(TOOL, 'rt_io.c')] + [resolve_src(c, self.hdir) for c in h.csrc]
        self.red = red
        self.entry = 'verif_main'

    def build_A(self):
        h = self.h; w = self.work
        os.makedirs(w, exist_ok=True)
        self.cfiles = [resolve_src(h.src, self.hdir), os.path.join(TOOL, 'rt_io.c')] + [resolve_src(c, self.hdir) for c in h.csrc]
        self.entry = h.entry
        self.red = None

    def cdefs(self):
        defs = dict(self.h.defines); defs.update(self.variant)
        if self.entry_list: defs['VERIF_MULTI'] = '1'
        out = []
        for k, v in sorted(defs.items()):
            out += ['-D', '%s=%s' % (k, v) if v is not None else k]
        if self.h.route == 'A':
            out += ['-I', TOOL, '-I', os.path.join(VERIF, 'ref'), '-I', SRC, '-I', os.path.join(SRC, 'secp256k1'), '-I', os.path.join(SRC, 'secp256k1', 'src'),
                    '-I', os.path.join(SRC, 'secp256k1', 'include'), '-I', os.path.join(SRC, 'crypto', 'ctaes')]
            for d in self.h.include_dirs:
                out += ['-I', d]
        return out

    # ------------------------------------------------------------------ native builds
    def build_native(self):
        w = self.work; h = self.h
        bins = {}
        if h.route == 'B':
            gc = os.path.join(w, 'native_c')
            ent = (['-DVERIF_MULTI'] if self.entry_list else ['-DVERIF_ENTRY=' + h.entry])
            rc, out, _, _ = run(['gcc', '-O1', '-w', '-fno-strict-aliasing', '-fwrapv'] + ent + [c for c in self.cfiles if not c.endswith('wrap.c')] + ([self.dispatch] if self.entry_list else []) + ['-o', gc], timeout=600)
            if rc != 0:
                raise Inconclusive('gcc build of generated C failed:\n' + out[-3000:])
            bins['c'] = gc
            nb = os.path.join(w, 'native_bc')
            rc, out, _, _ = run(['clang++-14', '-O1', '-w', self.red, '-x', 'c', os.path.join(TOOL, 'rt_io.c')] + ([self.dispatch] if self.entry_list else []) + ['-DVERIF_BC_BUILD'] + ent + ['-o', nb, '-lstdc++', '-lm'], timeout=600)
            if rc != 0:
                raise Inconclusive('native build of reduced bitcode failed (unresolved real symbols must be stubbed in the harness):\n' + out[-3000:])
            bins['bc'] = nb
        else:
            nb = os.path.join(w, 'native_a')
            rc, out, _, _ = run(['gcc', '-O1', '-w', '-fwrapv', '-ffunction-sections', '-fdata-sections', '-Wl,--gc-sections', '-DVERIF_NATIVE', '-DVERIF_ENTRY=' + h.entry] + self.cdefs() + self.cfiles + ['-o', nb], timeout=600)
            if rc != 0:
                raise Inconclusive('native gcc build failed:\n' + out[-3000:])
            bins['bc'] = nb
        self.bins = bins

    def differential(self, seed):
        """translator validation: generated C (gcc) vs reduced bitcode (clang) on seeded random tapes"""
        if self.h.route != 'B' or self.h.diff_runs <= 0:
            return dict(runs=0, passed_assumes=0)
        n = 0; live = 0
        seeds = [str(seed * 1000003 + i) for i in range(self.h.diff_runs)]
        en = (self.entry_name + ' ') if self.entry_name else ''
        script = ('for s in %s; do a=$(timeout 60 "%s" ' + en + '--seed $s 2>&1); ra=$?; b=$(timeout 60 "%s" ' + en + '--seed $s 2>&1); rb=$?; printf "%%s\\037%%s\\037%%s\\037%%s\\037%%s\\036" "$s" "$ra" "$a" "$rb" "$b"; done') % (' '.join(seeds), self.bins['c'], self.bins['bc'])
        rc, out, _, _ = run(['bash', '-c', script], timeout=60 * len(seeds) + 60)
        for rec in out.split('\x1e'):
            if not rec.strip(): continue
            s, ra, a, rb, b = rec.split('\x1f')
            ra = int(ra); rb = int(rb)
            if rb in (132, 128 + 4):  # SIGILL from a ubsan trap in the bitcode build == assertion in the generated C
                rb = 1; b = 'ASSERT-FAIL UB in code under test (ubsan trap)'
            if rb == 134 and 'Assertion' in b:  # SIGABRT from the code's own assert() in the bitcode build == ll___assert_fail in the generated C
                rb = 1; b = 'ASSERT-FAIL assert() in code under test failed'
            if rb == 134 and 'terminate called' in b and ra == 1 and 'uncaught exception escaped harness' in a:
                rb = 1; b = a   # an exception escaping the harness entry: std::terminate in the bitcode build, pending-flag check in the generated C
            n += 1
            if (ra, a.strip()) != (rb, b.strip()):
                raise Inconclusive('translator differential mismatch on seed %s: generated-C rc=%s out=%r vs bitcode rc=%s out=%r' % (s, ra, a[-300:], rb, b[-300:]))
            if rb == 1:
                self.res.setdefault('native_random_failures', []).append(dict(seed=s, out=b[-300:]))
            if rb == 0:
                live += 1
        return dict(runs=n, passed_assumes=live)

    # ------------------------------------------------------------------ main
    def execute(self, seed):
        t0 = time.time()
        h = self.h; r = self.res
        try:
            if self.shared is not None:
                self.shared.ensure(); os.makedirs(self.work, exist_ok=True)
                self.bins = self.shared.bins; self.red = self.shared.job.red; self.cfiles = [self.shared.gb]; self.entry = 'verif_main_' + self.entry_name
                r['ir_lines'] = self.shared.job.res.get('ir_lines'); r['shared_build_s'] = self.shared.build_s
            elif h.route == 'B': self.build_B()
            else: self.build_A()
            cd = [] if self.shared is not None else self.cdefs()   # a shared goto binary already has its defines compiled in
            r['build_s'] = round(time.time() - t0, 2)
            wextra = None
            if h.witness_backends:
                # optional split (H(witness_backends=[...])): reachability/satisfiability witnesses are decided in a separate cbmc run on the given
                # back ends (model finding), the real assertions in the main sweep (proof); used where one back end cannot do both (non-linear arithmetic)
                rc0, pout, _, _ = run(['cbmc'] + self.cfiles + ['--function', self.entry] + cbmc_base(h, variant=self.variant) + cd + ['--show-properties'], timeout=300, cwd=self.work)
                plist = re.findall(r'^Property (\S+):\n[^\n]*\n  ([^\n]*)$', pout, re.M)
                wids = [i for i, d in plist if d.startswith('WITNESS:')]; pids = [i for i, d in plist if not d.startswith('WITNESS:')]
                if rc0 != 0 or not wids or not pids:
                    raise Inconclusive('could not list properties for the witness/proof split: ' + pout[-800:])
                wextra = cd + [x for i in wids for x in ('--property', i)]
            win, allr = run_cbmc_sweep(h, self.cfiles, self.entry, self.work, extra=cd + ([x for i in pids for x in ('--property', i)] if wextra else []), variant=self.variant)
            if wextra and win['verdict'] is not None:
                hw = H(h.name, h.src, h.entry); hw.__dict__.update(h.__dict__); hw.backends = list(h.witness_backends)
                wwin, _ = run_cbmc_sweep(hw, self.cfiles, self.entry, self.work, extra=wextra, variant=self.variant)
                r['witness_backend'] = wwin['backend']; r['witness_wall_s'] = round(wwin['wall'], 2)
                if wwin['verdict'] is None or '(error' in wwin['out']:
                    raise Inconclusive('witness run gave no verdict after %.0fs: %s' % (wwin['wall'], wwin['out'][-800:]))
                win = dict(win); win['props'] = list(win['props']) + [q for q in wwin['props'] if q[1].startswith('WITNESS:')]
            r['backend'] = win['backend']; r['solver_wall_s'] = round(win['wall'], 2); r['rss_kb'] = win['rss_kb']
            r['checker_cmd'] = win['cmd']
            r['backends_tried'] = {b: dict(rc=str(x['rc']), wall=round(x['wall'], 1), verdict=x['verdict']) for b, x in allr.items()}
            out = win['out']
            m = re.search(r'(\d+) variables, (\d+) clauses', out)
            if m: r['sat_vars'] = int(m.group(1)); r['sat_clauses'] = int(m.group(2))
            m = re.search(r'size of program expression: (\d+) steps', out)
            if m: r['ssa_steps'] = int(m.group(1))
            if win['verdict'] is None or '(error' in out:
                why = 'timeout' if win['rc'] == 'timeout' else ('out of memory' if 'bad_alloc' in out or 'out of memory' in out.lower() else 'tool error')
                raise Inconclusive('cbmc gave no verdict (%s) after %.0fs: %s' % (why, win['wall'], out[-1500:]))
            nobody = sorted(set(re.findall(r'no body for (?:function|callee) (\S+)', out)) - set(h.allow_nobody))
            nobody = [f for f in nobody if not f.startswith(('nondet_', '__VERIFIER_nondet', '__CPROVER'))]
            if nobody:
                raise Inconclusive('functions without a body would be havocked by CBMC (unsound): %s -- link the real TU, stub them in the harness, or model them in tool/rt.c / tool/models' % nobody[:12])
            props = win['props']
            wit = [p for p in props if p[1].startswith('WITNESS:')]
            real = [p for p in props if not p[1].startswith('WITNESS:')]
            r['properties_checked'] = len(real); r['witnesses'] = len(set(p[1] for p in wit))
            unw = [p for p in real if 'unwinding assertion' in p[1] and p[2] != 'SUCCESS']
            if unw:
                raise Inconclusive('unwinding bound too small: %s' % unw[:3])
            confirmed = set(p[1] for p in wit if p[2] == 'FAILURE')   # the compiler may duplicate a witness on several paths: one reachable instance suffices
            vac = [p for p in wit if p[1] not in confirmed]
            bad = [p for p in real if p[2] != 'SUCCESS']
            if (vac or not wit) and not bad:
                raise Inconclusive('vacuous harness: witness not reachable / missing: %s' % (vac[:3] or 'no VREACH/VWITNESS in harness'))
            r['discharged'] = len(real) - len(bad)
            r['assertions'] = sorted(set(p[1] for p in real))[:40]
            # native builds + translator differential
            t1 = time.time()
            if self.shared is None: self.build_native()
            r['native_build_s'] = round(time.time() - t1, 2)
            t1 = time.time(); r['differential'] = self.differential(seed); r['differential_s'] = round(time.time() - t1, 2)
            if 'native_random_failures' in r:
                bad = bad or [('native', r['native_random_failures'][0]['out'], 'FAILURE')]
            if not bad:
                r['status'] = 'pass'
            else:
                self.counterexample(bad)
        except Inconclusive as e:
            r['status'] = 'inconclusive'; r['reason'] = str(e)[:4000]
        except Exception as e:  # tool bug: never report success
            import traceback
            r['status'] = 'inconclusive'; r['reason'] = 'driver exception: ' + traceback.format_exc()[-3000:]
        r['wall_s'] = round(time.time() - t0, 2)
        return r

    def counterexample(self, bad):
        """re-run with tape recording + trace for the first failing property; replay natively"""
        h = self.h; r = self.res
        if bad[0][0] == 'native':
            pid_prop = None
        else:
            pid_prop = bad[0][0]
        tape = []
        if pid_prop:
            hh = H(h.name, h.src, h.entry); hh.__dict__.update(h.__dict__); hh.slice_formula = False; hh.backends = [r['backend'] if r['backend'] in ('default', 'cadical') else 'default']
            if self.shared is not None:
                extra = ['--trace', '--property', pid_prop]; files = [self.shared.recording_binary()]
            else:
                extra = self.cdefs() + ['-D', 'VERIF_RECORD_TAPE', '-D', 'VERIF_TAPE_MAX=%d' % TAPE_MAX, '--trace', '--property', pid_prop]; files = self.cfiles
            if h.slice_formula and os.environ.get('VERIF_SLICED_TRACE', '1') == '1':
                # first attempt with the formula slice (much cheaper on large harnesses). A sliced trace may omit inputs outside the property's cone, so its tape is
                # only USED if the native replay of that tape fails the assertion (nothing is reported that does not reproduce); otherwise fall through to the full trace
                hs = H(h.name, h.src, h.entry); hs.__dict__.update(hh.__dict__); hs.slice_formula = True
                wins, _ = run_cbmc_sweep(hs, files, self.entry, self.work, extra=extra, timeout=max(h.timeout, 600), variant=self.variant)
                if wins['verdict'] == 'failed':
                    t2 = tape_from_trace(wins['out'])
                    rdir = os.path.join(VERIF, 'replays', self.pid); os.makedirs(rdir, exist_ok=True)
                    p2 = os.path.join(rdir, self.id + '.tape')
                    meta = dict(property=self.pid, harness=h.name, variant=self.variant, failing=[b[1] for b in bad][:5], trace='sliced')
                    if self.entry_name: meta['entry'] = self.entry_name
                    write_tape(p2, t2, meta)
                    rc, out, _, _ = norm_trap(run([self.bins['bc']] + ([self.entry_name] if self.entry_name else []) + [p2], timeout=120))
                    if rc == 1 and 'ASSERT-FAIL' in out:
                        r['replay'] = dict(path=p2, rc=str(rc), out=out[-500:])
                        r['status'] = 'violation'; r['failing'] = [b[1] for b in bad][:5]
                        r['replay_msg'] = out.strip().splitlines()[-1] if out.strip() else ''
                        return
                    try: os.remove(p2)
                    except OSError: pass
            win, _ = run_cbmc_sweep(hh, files, self.entry, self.work, extra=extra, timeout=max(h.timeout, 600), variant=self.variant)
            if win['verdict'] != 'failed':
                raise Inconclusive('could not regenerate counterexample trace for %s: %s' % (pid_prop, win['out'][-800:]))
            tape = tape_from_trace(win['out'])
        rdir = os.path.join(VERIF, 'replays', self.pid); os.makedirs(rdir, exist_ok=True)
        path = os.path.join(rdir, self.id + '.tape')
        meta = dict(property=self.pid, harness=h.name, variant=self.variant, failing=[b[1] for b in bad][:5])
        if self.entry_name: meta['entry'] = self.entry_name
        if pid_prop is None:
            meta['seed'] = r['native_random_failures'][0]['seed']
        write_tape(path, tape, meta)
        if pid_prop is None:
            rc, out = 1, r['native_random_failures'][0]['out']
        else:
            rc, out, _, _ = norm_trap(run([self.bins['bc']] + ([self.entry_name] if self.entry_name else []) + [path], timeout=120))
        r['replay'] = dict(path=path, rc=str(rc), out=out[-500:])
        if rc == 1 and 'ASSERT-FAIL' in out:
            r['status'] = 'violation'; r['failing'] = [b[1] for b in bad][:5]
            r['replay_msg'] = out.strip().splitlines()[-1] if out.strip() else ''
        else:
            raise Inconclusive('solver counterexample for %r did not reproduce natively (rc=%s, out=%r): encoding artefact, not reported as violation' % (bad[0][1], rc, out[-300:]))


def norm_trap(res):
    """the native bitcode build executes a ubsan trap as SIGILL; the generated C reports it as an assertion"""
    rc, out, a, b = res
    if rc in (-4, 132):
        return 1, out + 'ASSERT-FAIL UB in code under test (ubsan trap)\n', a, b
    if rc in (-6, 134) and 'terminate called' in out:
        return 1, out + 'ASSERT-FAIL uncaught exception escaped harness\n', a, b
    if rc in (-6, 134) and 'Assertion' in out:   # the code's own assert() aborted the native bitcode build
        return 1, out + 'ASSERT-FAIL assert() in code under test failed\n', a, b
    return res


def load_spec(pid):
    hdir = os.path.join(VERIF, 'harness', pid)
    p = os.path.join(hdir, 'spec.py')
    if not os.path.exists(p):
        raise SystemExit('no spec for ' + pid)
    sp = importlib.util.spec_from_file_location('spec_' + pid, p)
    mod = importlib.util.module_from_spec(sp)
    sp.loader.exec_module(mod)
    return hdir, mod


def load_known(pid):
    p = os.path.join(VERIF, 'known_findings.txt')
    out = []
    if os.path.exists(p):
        for ln in open(p):
            ln = ln.strip()
            if ln.startswith('KNOWN-FINDING:') and ('property=%s ' % pid) in ln + ' ':
                out.append(ln)
    return out


def check_property(pid, tier, seed, only=None, keep=False):
    t0 = time.time()
    hdir, mod = load_spec(pid)
    root = tempfile.mkdtemp(prefix='verif-%s-' % pid, dir=os.environ.get('VERIF_SCRATCH', '/var/tmp'))
    jobs = []
    for h in mod.HARNESSES:
        if only and h.name not in only: continue
        if tier == 'quick' and h.tier == 'thorough': continue
        if h.entries is not None:
            es = h.tentries if (tier == 'thorough' and h.tentries is not None) else h.entries
            if os.environ.get('VERIF_ENTRIES'):   # development aid: restrict to the named entries
                es = [e for e in es if e[0] in os.environ['VERIF_ENTRIES'].split(',')]
            sb = SharedBuild(pid, hdir, h, es, tier, root)
            for name, _args in es:
                jobs.append(Job(pid, hdir, h, {}, tier, root, shared=sb, entry_name=name))
            continue
        vs = h.variants
        if tier == 'thorough' and h.tvariants is not None: vs = h.tvariants
        for v in vs:
            jobs.append(Job(pid, hdir, h, v, tier, root))
    results = []
    par = int(getattr(mod, 'PARALLEL', NCPU))
    try:
        with ThreadPoolExecutor(max_workers=max(1, min(par, NCPU))) as ex:
            for r in ex.map(lambda j: j.execute(seed), jobs):
                results.append(r)
                print('  [%s] %s %s (%.1fs%s)' % (pid, r['id'], r['status'].upper(), r['wall_s'], (', ' + r.get('backend', '')) if r.get('backend') else ''), flush=True)
                if r['status'] == 'inconclusive':
                    print('      reason: ' + r['reason'][:1500].replace('\n', '\n      '), flush=True)
    finally:
        if not keep:
            shutil.rmtree(root, ignore_errors=True)
        else:
            print('scratch kept at', root)
    known = load_known(pid)
    viol = [r for r in results if r['status'] == 'violation']
    inc = [r for r in results if r['status'] == 'inconclusive']
    new_viol = []
    for r in viol:
        key = 'harness=%s' % r['id']
        kf = [k for k in known if key in k and any(('assertion="%s"' % f) in k for f in r.get('failing', []))]
        if kf:
            print('KNOWN-FINDING: property=%s %s' % (pid, kf[0].split('property=%s ' % pid, 1)[1]))
        else:
            new_viol.append(r)
    for r in new_viol:
        print('VIOLATION property=%s replay=%s' % (pid, r['replay']['path']))
        print('  harness=%s failing=%s native=%s' % (r['id'], r.get('failing'), r.get('replay_msg')))
    write_evidence(pid, tier, seed, mod, results, time.time() - t0, len(new_viol))
    if new_viol: return 1
    if inc or not results: return 2
    return 0


def write_evidence(pid, tier, seed, mod, results, wall, nviol):
    level = getattr(mod, 'LEVEL', 'model_checking')
    passed = [r for r in results if r['status'] == 'pass']
    obligations = sum(r.get('properties_checked', 0) for r in results)
    discharged = sum(r.get('discharged', 0) for r in results)
    funcs = []; stubs = []; assum = []; bounds = []
    for h in mod.HARNESSES:
        funcs += h.functions; stubs += h.stubs; assum += h.assumptions
        if h.bounds: bounds.append('%s: %s' % (h.name, h.bounds))
    samples = []
    for r in results[:12]:
        samples.append(dict(query=r['id'], status=r['status'], backend=r.get('backend'), solver_wall_s=r.get('solver_wall_s'),
                            ssa_steps=r.get('ssa_steps'), sat_vars=r.get('sat_vars'), assertions=r.get('assertions', [])[:8],
                            witnesses_reached=r.get('witnesses'), differential=r.get('differential')))
    cov = dict(
        obligations=obligations, discharged=discharged,
        checker_cmd=(passed[0].get('checker_cmd', '') if passed else (results[0].get('checker_cmd', 'cbmc') if results else 'cbmc')) or 'cbmc',
        trusted_base=['cbmc 6.11.0 (symex + SAT/SMT back end named per query)', 'clang++-14 -O1 front end (IR generation from /repo sources)',
                      'tool/ll2c.py IR->C translator (validated this run: gcc build of generated C vs clang build of the same bitcode on seeded tapes)',
                      'tool/rt.c runtime model (allocation, exceptions, libstdc++ out-of-line tree/hash helpers)', 'compat shims: <source_location>, -Dconsteval=constexpr, overlay rules in tool/overlay.py'] + sorted(set(stubs)),
        evaluations=obligations + sum(r.get('witnesses', 0) or 0 for r in results),
        distinct_nontrivial=len(set((r['harness'], a) for r in passed if r.get('witnesses', 0) > 0 for a in r.get('assertions', []) if 'unwinding assertion' not in a)),
        queries_run=len(results), queries_nonvacuous=len([r for r in passed if r.get('witnesses', 0) > 0]),
        rule='one evaluation = one proof obligation decided by the solver for ALL symbolic values of its query (an assertion of the harness or of the code under test, an unwinding assertion, or a reachability/satisfiability witness); a query = harness x concrete shape/case-split variant. distinct_nontrivial = number of distinct (harness, assertion) pairs discharged in queries whose every witness label was confirmed reachable/satisfiable by the solver (non-vacuous); unwinding assertions are not counted',
        samples=samples, queries=[dict(id=r['id'], status=r['status'], wall_s=r['wall_s'], build_s=r.get('build_s'), native_build_s=r.get('native_build_s'), differential_s=r.get('differential_s'), solver_wall_s=r.get('solver_wall_s'), rss_kb=r.get('rss_kb'), backend=r.get('backend'), reason=r.get('reason', '')[:300] if r['status'] != 'pass' else None) for r in results],
        functions_encoded=sorted(set(funcs)), stubs=sorted(set(stubs)), bounds=bounds,
        solver_time_s=round(sum(r.get('solver_wall_s', 0) or 0 for r in results), 2), peak_rss_kb=max([r.get('rss_kb', 0) or 0 for r in results] + [0]),
        translator_differential_runs=sum((r.get('differential') or {}).get('runs', 0) for r in results),
        explanation=getattr(mod, 'CLAIM', ''), exhaustive=False,
        inconclusive=[r['id'] for r in results if r['status'] == 'inconclusive'],
    )
    ev = dict(property_id=pid, tier=tier, seed=seed, level=level, coverage=cov,
              assumptions=sorted(set(assum)) + ['allocation failure out of scope (--no-malloc-may-fail)', 'bounds as listed in coverage.bounds; nothing outside them is claimed'],
              wall_s=round(wall, 2), violations=nviol)
    # evidence under /verif/evidence only describes runs against /repo itself; a run against another tree (VERIF_REPO=..., mutation testing) writes elsewhere
    evdir = os.environ.get('VERIF_EVIDENCE_DIR') or (os.path.join(VERIF, 'evidence') if REPO == '/repo' else os.path.join(os.environ.get('VERIF_SCRATCH', '/var/tmp'), 'verif-evidence-alt'))
    os.makedirs(evdir, exist_ok=True)
    with open(os.path.join(evdir, pid + '.json'), 'w') as f:
        json.dump(ev, f, indent=1)


def replay(pid, path):
    meta = json.loads(open(path).readline()[1:])
    hdir, mod = load_spec(pid)
    h = [x for x in mod.HARNESSES if x.name == meta['harness']][0]
    root = tempfile.mkdtemp(prefix='verif-replay-', dir=os.environ.get('VERIF_SCRATCH', '/var/tmp'))
    try:
        if meta.get('entry'):
            es = [e for e in (list(h.entries or []) + list(h.tentries or [])) if e[0] == meta['entry']][:1]
            sb = SharedBuild(pid, hdir, h, es, 'quick', root); sb.ensure(); j = sb.job
        else:
            j = Job(pid, hdir, h, meta['variant'], 'quick', root)
            if h.route == 'B': j.build_B()
            else: j.build_A()
            j.build_native()
        args = ([meta['entry']] if meta.get('entry') else []) + (['--seed', meta['seed']] if 'seed' in meta else [path])
        rc, out, _, _ = norm_trap(run([j.bins['bc']] + args, timeout=120))
        print(out)
        if rc == 1:
            print('VIOLATION property=%s replay=%s' % (pid, path)); return 1
        print('replay did not fail (rc=%s)' % rc); return 0
    finally:
        shutil.rmtree(root, ignore_errors=True)
