#!/usr/bin/env python3
"""usage: python3-vt tool/validate.py  -- validates MANIFEST.json and every evidence/*.json against the schemas in /root/.vp"""
import json, glob, sys, os
import jsonschema
V = os.path.dirname(os.path.dirname(os.path.abspath(__file__)))
ms = json.load(open('/root/.vp/MANIFEST.schema.json')); es = json.load(open('/root/.vp/EVIDENCE.schema.json'))
m = json.load(open(os.path.join(V, 'MANIFEST.json'))); jsonschema.validate(m, ms); print('MANIFEST ok:', len(m['checks']), 'checks,', len(m.get('not_applicable', [])), 'not applicable')
bad = 0
for c in m['checks']:
    f = os.path.join(V, c['evidence_file'])
    if not os.path.exists(f): print('MISSING evidence', c['property_id']); bad += 1; continue
    e = json.load(open(f))
    try:
        jsonschema.validate(e, es)
        if e['level'] != c['level_claimed']['category']: print('LEVEL MISMATCH', c['property_id'], e['level'], c['level_claimed']['category']); bad += 1
        inc = e['coverage'].get('inconclusive') or []
        print('ok', c['property_id'], e['tier'], 'level', e['level'], 'eval', e['coverage'].get('evaluations'), 'distinct', e['coverage'].get('distinct_nontrivial'), 'violations', e.get('violations'), ('INCONCLUSIVE: %s' % inc[:3]) if inc else '')
        if inc or e.get('violations'): bad += 1
    except jsonschema.ValidationError as ex:
        print('INVALID', c['property_id'], str(ex)[:300]); bad += 1
sys.exit(1 if bad else 0)
