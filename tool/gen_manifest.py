#!/usr/bin/env python3
"""Regenerates /verif/MANIFEST.json from harness/*/spec.py and tool/not_applicable.json."""
import os, sys, json, glob
sys.path.insert(0, os.path.dirname(os.path.abspath(__file__)))
import vlib
V = vlib.VERIF
props = [json.loads(l) for l in open(os.path.join(V, 'properties.jsonl'))]
ids = [p['id'] for p in props]
na = json.load(open(os.path.join(V, 'tool', 'not_applicable.json')))
allow = set(json.load(open(os.path.join(V, 'tool', 'claimed.json'))))   # properties whose checks were run green end-to-end by the lead
checks = []
claimed = set()
for pid in ids:
    if pid not in allow or not os.path.exists(os.path.join(V, 'harness', pid, 'spec.py')):
        continue
    hdir, mod = vlib.load_spec(pid)
    if getattr(mod, 'DISABLED', False):
        continue
    claimed.add(pid)
    level = getattr(mod, 'LEVEL', 'model_checking')
    has_thorough = any(h.tier == 'thorough' or h.tvariants is not None for h in mod.HARNESSES)
    c = dict(property_id=pid, quick_cmd='./check %s --tier quick' % pid,
             evidence_file='evidence/%s.json' % pid, replay_cmd_template='./check %s --replay {path}' % pid,
             engine='cbmc-ir', level_claimed=dict(category=level, text=mod.CLAIM, design_ref='DESIGN.md section 3, ' + pid),
             level_note=getattr(mod, 'NOTE', 'Bounded symbolic execution (CBMC 6.11 + SAT/SMT back end) of the real functions compiled from /repo by clang-14 and translated IR->C by tool/ll2c.py; trusted: cbmc, solver, clang-14, ll2c (differentially validated per run), tool/rt.c runtime model, listed stubs; bounds in evidence.coverage.bounds.'),
             technique=getattr(mod, 'TECHNIQUE', 'bounded symbolic model checking of the real code with CBMC (SAT/SMT decides all values within the stated bounds); counterexamples replayed natively'))
    c['thorough_cmd'] = './check %s --tier thorough' % pid
    checks.append(c)
nal = []
for pid in ids:
    if pid in claimed: continue
    nal.append(dict(property_id=pid, reason=na.get(pid, 'not yet built: no sound harness exists for this property in this framework (see DESIGN.md)')))
m = dict(version=1,
         setup_cmd='python3 tool/setup_check.py',
         hooks=dict(guard='BITCOIN_VERIF_HOOKS', enable='none needed: all substitution happens on LLVM IR / scratch overlay copies outside /repo',
                    baseline_off_cmd='ctest --test-dir /repo/_build -j8 --timeout 900', source_commits=[], add_only=True),
         engines=[dict(name='cbmc-ir', path='tool/vlib.py', serves_properties=sorted(claimed),
                       kind_free_text='clang-14 -> LLVM IR -> tool/ll2c.py -> C -> CBMC 6.11 (SAT/SMT back-end sweep); Route A: CBMC directly on C units (secp256k1, ctaes)')],
         checks=checks, not_applicable=nal,
         notes='Exit 2 from a check means inconclusive (tool limit), never success. Every check rebuilds its IR from /repo working tree.')
json.dump(m, open(os.path.join(V, 'MANIFEST.json'), 'w'), indent=1)
print('claimed %d, not applicable %d' % (len(claimed), len(nal)))
